//@@FILE crates/grafeo-core/src/execution/operators/filter.rs
// Appended to crates/grafeo-core/src/execution/operators/filter.rs in the scratch copy (cfg(kani) only).
// Loop-free harnesses over the REAL eval_binary_op / eval_unary_op with the operator and the operand variants fixed and
// every payload symbolic (all i64, all f64 bit patterns).  The methods never read `self` (rule M1): the receiver is an
// uninitialised ExpressionPredicate that is never dereferenced (building a real one needs LpgStore: locks + hash maps).
#[cfg(kani)]
mod verif_filter {
    use super::*;
    use std::mem::MaybeUninit;

    fn pred() -> &'static ExpressionPredicate {
        let m: &'static mut MaybeUninit<ExpressionPredicate> = Box::leak(Box::new(MaybeUninit::uninit()));
        unsafe { &*m.as_ptr() }
    }
    // kind: 0 Null, 1 Bool, 2 Int64, 3 Float64
    fn val(kind: u8) -> Value {
        match kind { 0 => Value::Null, 1 => Value::Bool(kani::any()), 2 => Value::Int64(kani::any()), _ => Value::Float64(kani::any()) }
    }
    // The Regex arm of eval_binary_op drags regex_automata into the reachable set and crashes kani-compiler 0.68
    // (codegen_get_discriminant); it is cut off by stubs.  The regex operator is NOT covered by any obligation here.
    fn regex_new_stub(_re: &str) -> Result<Regex, regex::Error> { Err(regex::Error::Syntax(String::new())) }
    fn regex_is_match_stub(_r: &Regex, _h: &str) -> bool { kani::any() }
    fn truthy(v: &Option<Value>) -> bool { matches!(v, Some(Value::Bool(true))) }   // ExpressionPredicate::evaluate's final match

    // ---- C12: arithmetic never panics (CBMC's overflow / division-by-zero / shift checks are the obligations) ----
    fn arith(op: BinaryFilterOp, k1: u8, k2: u8) {
        let (l, r) = (val(k1), val(k2));
        let out = pred().eval_binary_op(&l, op, &r);
        match (&l, &r, &out) {
            (Value::Int64(_), Value::Int64(_), Some(Value::Int64(_))) | (Value::Int64(_), Value::Int64(_), None) => {}
            (Value::Int64(_), Value::Int64(_), _) => assert!(false, "int op int must be an int or NULL"),
            _ => {}
        }
        kani::cover!(out.is_some());
        std::mem::forget(l); std::mem::forget(r); std::mem::forget(out);
    }
    macro_rules! arith { ($n:ident, $op:ident, $a:expr, $b:expr) => { #[kani::proof] #[kani::stub(regex::Regex::new, regex_new_stub)] #[kani::stub(regex::Regex::is_match, regex_is_match_stub)] fn $n() { arith(BinaryFilterOp::$op, $a, $b); } }; }
    //@GENERATED-ARITH@

    #[kani::proof]
    fn neg_int() {
        let out = pred().eval_unary_op(UnaryFilterOp::Neg, Some(Value::Int64(kani::any())));
        assert!(matches!(out, Some(Value::Int64(_)) | None));
        kani::cover!(out.is_some());
        std::mem::forget(out);
    }
    #[kani::proof]
    fn neg_float() {
        let f: f64 = kani::any();
        let out = pred().eval_unary_op(UnaryFilterOp::Neg, Some(Value::Float64(f)));
        match out { Some(Value::Float64(g)) => assert!(g.to_bits() == (-f).to_bits()), _ => assert!(false) }
    }

    // ---- C11: three-valued kernel ----
    fn logic(op: BinaryFilterOp, k1: u8, k2: u8) {
        let (l, r) = (val(k1), val(k2));
        let out = pred().eval_binary_op(&l, op, &r);
        match (&l, &r) {
            (Value::Bool(a), Value::Bool(b)) => {
                let want = match op { BinaryFilterOp::And => *a && *b, BinaryFilterOp::Or => *a || *b, _ => *a ^ *b };
                assert!(matches!(out, Some(Value::Bool(x)) if x == want));
            }
            _ => assert!(out.is_none()),     // anything that is not a boolean makes the connective unknown
        }
        kani::cover!(true);
        std::mem::forget(l); std::mem::forget(r); std::mem::forget(out);
    }
    macro_rules! logic { ($n:ident, $op:ident, $a:expr, $b:expr) => { #[kani::proof] #[kani::stub(regex::Regex::new, regex_new_stub)] #[kani::stub(regex::Regex::is_match, regex_is_match_stub)] fn $n() { logic(BinaryFilterOp::$op, $a, $b); } }; }
    //@GENERATED-LOGIC@

    fn opt(kind: u8) -> Option<Value> { if kind == 9 { None } else { Some(val(kind)) } }
    fn unary(kind: u8) {
        // NOT: Some(Bool(b)) -> Some(Bool(!b)); everything else unknown.  Hence exactly one of p / NOT p / unknown.
        let v = opt(kind);
        let p_true = truthy(&v);
        let is_bool = matches!(v, Some(Value::Bool(_)));
        let is_nullish = matches!(v, None | Some(Value::Null));
        let v2 = match &v { None => None, Some(Value::Null) => Some(Value::Null), Some(Value::Bool(b)) => Some(Value::Bool(*b)),
                            Some(Value::Int64(i)) => Some(Value::Int64(*i)), Some(Value::Float64(f)) => Some(Value::Float64(*f)), _ => None };
        let v3 = match &v { None => None, Some(Value::Null) => Some(Value::Null), Some(Value::Bool(b)) => Some(Value::Bool(*b)),
                            Some(Value::Int64(i)) => Some(Value::Int64(*i)), Some(Value::Float64(f)) => Some(Value::Float64(*f)), _ => None };
        let n = pred().eval_unary_op(UnaryFilterOp::Not, v);
        let not_true = truthy(&n);
        let unknown = !is_bool;
        assert!(is_bool == n.is_some());
        assert!((p_true as u8) + (not_true as u8) + (unknown as u8) == 1);     // the partition of C11
        let isn = pred().eval_unary_op(UnaryFilterOp::IsNull, v2);
        let isnn = pred().eval_unary_op(UnaryFilterOp::IsNotNull, v3);
        assert!(matches!(isn, Some(Value::Bool(b)) if b == is_nullish));
        assert!(matches!(isnn, Some(Value::Bool(b)) if b == !is_nullish));     // total and complementary
        kani::cover!(true);
        std::mem::forget(n); std::mem::forget(isn); std::mem::forget(isnn);
    }
    macro_rules! unary { ($n:ident, $a:expr) => { #[kani::proof] fn $n() { unary($a); } }; }
    unary!(unary_none, 9); unary!(unary_null, 0); unary!(unary_bool, 1); unary!(unary_int, 2); unary!(unary_float, 3);

    // comparisons on integers agree with the integers; <, >= and >, <= are complementary whenever comparable.
    // One operator PAIR per harness (part: 0 = Lt/Ge, 1 = Gt/Le, 2 = Eq/Ne): keeps each formula small (float partial_cmp is costly).
    fn cmp(part: u8, k1: u8, k2: u8) {
        let (l, r) = (val(k1), val(k2));
        let p = pred();
        if part == 0 {
            let lt = p.eval_binary_op(&l, BinaryFilterOp::Lt, &r);
            let ge = p.eval_binary_op(&l, BinaryFilterOp::Ge, &r);
            assert!(lt.is_some() == ge.is_some());
            if lt.is_some() { assert!(truthy(&lt) != truthy(&ge)); }
            if let (Value::Int64(a), Value::Int64(b)) = (&l, &r) { assert!(truthy(&lt) == (a < b) && truthy(&ge) == (a >= b)); }
            if let (Value::Float64(a), Value::Float64(b)) = (&l, &r) { assert!(truthy(&lt) == (a < b) && truthy(&ge) == (a >= b)); }
            // x < y  iff  y > x, whatever the operand types (a mirrored mixed-type arm breaks this)
            let gt_swapped = p.eval_binary_op(&r, BinaryFilterOp::Gt, &l);
            assert!(truthy(&lt) == truthy(&gt_swapped), "x < y disagrees with y > x");
            std::mem::forget(gt_swapped);
            kani::cover!(lt.is_some());
            std::mem::forget(lt); std::mem::forget(ge);      // a symbolic Option<Value> must not reach Value's recursive drop glue
        } else if part == 1 {
            let gt = p.eval_binary_op(&l, BinaryFilterOp::Gt, &r);
            let le = p.eval_binary_op(&l, BinaryFilterOp::Le, &r);
            assert!(gt.is_some() == le.is_some());
            if gt.is_some() { assert!(truthy(&gt) != truthy(&le)); }
            if let (Value::Int64(a), Value::Int64(b)) = (&l, &r) { assert!(truthy(&gt) == (a > b) && truthy(&le) == (a <= b)); }
            if let (Value::Float64(a), Value::Float64(b)) = (&l, &r) { assert!(truthy(&gt) == (a > b) && truthy(&le) == (a <= b)); }
            let ge_swapped = p.eval_binary_op(&r, BinaryFilterOp::Ge, &l);
            assert!(truthy(&le) == truthy(&ge_swapped), "x <= y disagrees with y >= x");
            std::mem::forget(ge_swapped);
            kani::cover!(gt.is_some());
            std::mem::forget(gt); std::mem::forget(le);
        } else {
            let eq = p.eval_binary_op(&l, BinaryFilterOp::Eq, &r);
            let ne = p.eval_binary_op(&l, BinaryFilterOp::Ne, &r);
            assert!(eq.is_some() && ne.is_some() && truthy(&eq) != truthy(&ne));
            if let (Value::Int64(a), Value::Int64(b)) = (&l, &r) { assert!(truthy(&eq) == (a == b)); }
            kani::cover!(truthy(&eq));
            std::mem::forget(eq); std::mem::forget(ne);
        }
        std::mem::forget(l); std::mem::forget(r);
    }
    macro_rules! cmp { ($n:ident, $p:expr, $a:expr, $b:expr) => {
        #[kani::proof] #[kani::stub(regex::Regex::new, regex_new_stub)] #[kani::stub(regex::Regex::is_match, regex_is_match_stub)] fn $n() { cmp($p, $a, $b); } }; }
    //@GENERATED-CMP@
}
//@@FILE crates/grafeo-core/src/execution/operators/push/project.rs
// The push-based pipeline has its own arithmetic evaluator: the same "returns, never panics" obligation (C12), all i64 / f64 pairs.
#[cfg(kani)]
mod verif_project {
    use super::*;
    fn val(kind: u8) -> Value { match kind { 2 => Value::Int64(kani::any()), _ => Value::Float64(kani::any()) } }
    fn arith(op: ArithOp, k1: u8, k2: u8) {
        let e = BinaryExpr::new(Box::new(ConstantExpr::new(val(k1))), Box::new(ConstantExpr::new(val(k2))), op);
        let chunk = DataChunk::empty();
        let out = e.evaluate(&chunk, 0);
        if k1 == 2 && k2 == 2 { assert!(matches!(out, Value::Int64(_) | Value::Null)); }
        kani::cover!(true);
        std::mem::forget(out); std::mem::forget(e); std::mem::forget(chunk);
    }
    macro_rules! parith { ($n:ident, $op:ident, $a:expr, $b:expr) => { #[kani::proof] fn $n() { arith(ArithOp::$op, $a, $b); } }; }
    parith!(project_add_int_int, Add, 2, 2); parith!(project_sub_int_int, Sub, 2, 2); parith!(project_mul_int_int, Mul, 2, 2);
    parith!(project_div_int_int, Div, 2, 2); parith!(project_mod_int_int, Mod, 2, 2);
    parith!(project_div_float_float, Div, 3, 3); parith!(project_mod_float_float, Mod, 3, 3); parith!(project_add_int_float, Add, 2, 3);
}
