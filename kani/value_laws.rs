// Appended to crates/grafeo-common/src/types/value.rs in the scratch copy (cfg(kani) only).
// Loop-free, full-domain harnesses: every f64 bit pattern (all NaN payloads, +-0.0, +-inf), every i64.
#[cfg(kani)]
mod verif_value_laws {
    use super::*;
    use std::cmp::Ordering;
    use std::hash::{Hash, Hasher};

    /// Records the byte stream fed to the hasher; equal streams => equal hashes for EVERY Hasher.
    struct Rec { buf: [u8; 40], n: usize }
    impl Hasher for Rec {
        fn finish(&self) -> u64 { 0 }
        fn write(&mut self, bytes: &[u8]) {
            let mut i = 0;
            while i < bytes.len() { if self.n < 40 { self.buf[self.n] = bytes[i]; } self.n += 1; i += 1; }
        }
    }
    fn stream<T: Hash>(t: &T) -> ([u8; 40], usize) { let mut r = Rec { buf: [0; 40], n: 0 }; t.hash(&mut r); (r.buf, r.n) }

    fn any_of() -> OrderedFloat64 { OrderedFloat64(kani::any()) }

    // ---------------- OrderedFloat64 ----------------
    #[kani::proof]
    fn of64_cmp_total_order() {
        let (a, b, c) = (any_of(), any_of(), any_of());
        assert!(a.cmp(&b) == b.cmp(&a).reverse());                       // antisymmetry + totality
        if a.cmp(&b) != Ordering::Greater && b.cmp(&c) != Ordering::Greater {
            assert!(a.cmp(&c) != Ordering::Greater);                     // transitivity
        }
        assert!(a.partial_cmp(&b) == Some(a.cmp(&b)));
        kani::cover!(a.cmp(&b) == Ordering::Less);
    }
    #[kani::proof]
    fn of64_cmp_consistent_with_eq() {
        let (a, b) = (any_of(), any_of());
        assert!((a.cmp(&b) == Ordering::Equal) == (a == b));
        kani::cover!(a == b);
    }
    #[kani::proof]
    fn of64_eq_equivalence() {
        let (a, b, c) = (any_of(), any_of(), any_of());
        assert!(a == a);
        assert!((a == b) == (b == a));
        if a == b && b == c { assert!(a == c); }
        kani::cover!(a == b && b == c);
    }
    #[kani::proof]
    #[kani::unwind(42)]
    fn of64_eq_implies_same_hash_stream() {
        let (a, b) = (any_of(), any_of());
        if a == b { assert!(stream(&a) == stream(&b)); }
        kani::cover!(a == b && a.0.to_bits() != b.0.to_bits());
    }

    // ---------------- OrderableValue on the heap-free variants ----------------
    // kind: 0 Int64, 1 Float64, 2 Bool, 3 Timestamp  (String holds an ArcStr: heap, not covered)
    fn ov(kind: u8) -> OrderableValue {
        match kind {
            0 => OrderableValue::Int64(kani::any()),
            1 => OrderableValue::Float64(any_of()),
            2 => OrderableValue::Bool(kani::any()),
            _ => OrderableValue::Timestamp(Timestamp::from_micros(kani::any())),
        }
    }
    // part 0: antisymmetry / totality      part 1: cmp == Equal  <=>  ==      part 2: == symmetric, partial_cmp agrees
    // (two harnesses per pair: the exact Int64/Float64 comparison makes the combined formula slow - measured 500 s vs 2 x 40 s)
    fn check_pair(part: u8, k1: u8, k2: u8) {
        let (a, b) = (ov(k1), ov(k2));
        if part == 0 {
            assert!(a.cmp(&b) == b.cmp(&a).reverse());
        } else if part == 1 {
            assert!((a.cmp(&b) == Ordering::Equal) == (a == b));
        } else {
            assert!((a == b) == (b == a));
            assert!(a.partial_cmp(&b) == Some(a.cmp(&b)));
        }
        kani::cover!(true);
    }
    fn check_pair_hash(k1: u8, k2: u8) {
        let (a, b) = (ov(k1), ov(k2));
        if a == b { assert!(stream(&a) == stream(&b)); }
        kani::cover!(true);
    }
    fn check_triple(k1: u8, k2: u8, k3: u8) {
        let (a, b, c) = (ov(k1), ov(k2), ov(k3));
        if a.cmp(&b) != Ordering::Greater && b.cmp(&c) != Ordering::Greater {
            assert!(a.cmp(&c) != Ordering::Greater);
        }
        if a == b && b == c { assert!(a == c); }
        kani::cover!(true);
    }
    macro_rules! pair { ($n:ident, $p:expr, $a:expr, $b:expr) => { #[kani::proof] fn $n() { check_pair($p, $a, $b); } }; }
    macro_rules! pairh { ($n:ident, $a:expr, $b:expr) => { #[kani::proof] #[kani::unwind(42)] fn $n() { check_pair_hash($a, $b); } }; }
    macro_rules! triple { ($n:ident, $a:expr, $b:expr, $c:expr) => { #[kani::proof] fn $n() { check_triple($a, $b, $c); } }; }
    //@GENERATED-OV@

    // ---------------- HashableValue on the heap-free variants ----------------
    // kind: 0 Null, 1 Bool, 2 Int64, 3 Float64, 4 Timestamp
    fn hv(kind: u8) -> HashableValue {
        HashableValue::new(match kind {
            0 => Value::Null,
            1 => Value::Bool(kani::any()),
            2 => Value::Int64(kani::any()),
            3 => Value::Float64(kani::any()),
            _ => Value::Timestamp(Timestamp::from_micros(kani::any())),
        })
    }
    fn check_hv_pair(k1: u8, k2: u8) {
        let (a, b) = (hv(k1), hv(k2));
        assert!(a == a);
        assert!((a == b) == (b == a));
        if a == b { assert!(stream(&a) == stream(&b)); }
        kani::cover!(true);
        std::mem::forget(a); std::mem::forget(b);
    }
    fn check_hv_triple(k1: u8, k2: u8, k3: u8) {
        let (a, b, c) = (hv(k1), hv(k2), hv(k3));
        if a == b && b == c { assert!(a == c); }
        kani::cover!(true);
        std::mem::forget(a); std::mem::forget(b); std::mem::forget(c);
    }
    macro_rules! hpair { ($n:ident, $a:expr, $b:expr) => { #[kani::proof] #[kani::unwind(42)] fn $n() { check_hv_pair($a, $b); } }; }
    macro_rules! htriple { ($n:ident, $a:expr, $b:expr, $c:expr) => { #[kani::proof] fn $n() { check_hv_triple($a, $b, $c); } }; }
    //@GENERATED-HV@

    // ---------------- Timestamp (derived impls; checked, not assumed) ----------------
    #[kani::proof]
    #[kani::unwind(42)]
    fn timestamp_laws() {
        let (a, b, c) = (Timestamp::from_micros(kani::any()), Timestamp::from_micros(kani::any()), Timestamp::from_micros(kani::any()));
        assert!(a.cmp(&b) == b.cmp(&a).reverse());
        if a <= b && b <= c { assert!(a <= c); }
        assert!((a.cmp(&b) == Ordering::Equal) == (a == b));
        if a == b { assert!(stream(&a) == stream(&b)); }
        assert!(a.as_micros() == b.as_micros() || a != b);
        kani::cover!(a == b);
    }
}
