// Appended to crates/grafeo-engine/src/query/cache.rs in the scratch copy (cfg(kani) only).
// BOUNDED (C10, "whether its plan came from the plan cache or was built fresh"): two query texts that get the SAME cache key must agree on
// what stands inside their string literals - otherwise the second one is served the first one's plan.  Alphabet {' ', '\'', 'a'}.
#[cfg(kani)]
mod verif_cache {
    use super::*;

    fn sym(b: u8) -> u8 { match b % 3 { 0 => b' ', 1 => b'\'', _ => b'a' } }
    /// the bytes strictly inside single-quoted literals, in order (an unterminated literal runs to the end)
    fn inside<const N: usize>(q: &[u8; N]) -> ([u8; N], usize) {
        let mut out = [0u8; N];
        let mut n = 0;
        let mut open = false;
        let mut i = 0;
        while i < N {
            if q[i] == b'\'' { open = !open; } else if open { out[n] = q[i]; n += 1; }
            i += 1;
        }
        (out, n)
    }
    fn same_key_same_literals<const A: usize, const B: usize>() {
        let (r1, r2): ([u8; A], [u8; B]) = (kani::any(), kani::any());
        let mut q1 = [0u8; A]; let mut q2 = [0u8; B];
        let mut i = 0; while i < A { q1[i] = sym(r1[i]); i += 1; }
        let mut j = 0; while j < B { q2[j] = sym(r2[j]); j += 1; }
        let (s1, s2) = (std::str::from_utf8(&q1).unwrap(), std::str::from_utf8(&q2).unwrap());
        let k1 = CacheKey::new(s1, QueryLanguage::Gql);
        let k2 = CacheKey::new(s2, QueryLanguage::Gql);
        if k1 == k2 {
            let ((a, na), (b, nb)) = (inside(&q1), inside(&q2));
            assert!(na == nb, "same plan-cache key for queries whose string literals differ in length");
            let mut t = 0; while t < na { assert!(a[t] == b[t], "same plan-cache key for queries whose string literals differ"); t += 1; }
        }
        kani::cover!(k1 == k2);
        std::mem::forget(k1); std::mem::forget(k2);
    }
    #[kani::proof] #[kani::unwind(8)] fn same_key_same_literals_4_3() { same_key_same_literals::<4, 3>(); }
    #[kani::proof] #[kani::unwind(8)] fn same_key_same_literals_3_3() { same_key_same_literals::<3, 3>(); }
}
