// Appended to crates/grafeo-core/src/execution/operators/limit.rs in the scratch copy (cfg(kani) only).
// BOUNDED stand-in (C11, "SKIP s LIMIT n returns rows s..s+n of the ordered result"): the REAL LimitOperator / SkipOperator /
// LimitSkipOperator are driven over a child that yields three chunks of symbolic sizes 0..=2 holding the row numbers 0,1,2,..;
// skip and limit are symbolic in 0..=7.  Every placement of the window relative to the chunk boundaries (inside a chunk, across
// one or two boundaries, past the end, empty chunks in between) is covered for these sizes; larger chunks / more chunks are not.
#[cfg(kani)]
mod verif_limit {
    use super::*;
    use crate::execution::DataChunk;

    const CHUNKS: usize = 3;
    const MAXROWS: usize = 2;
    struct Src { sizes: [usize; CHUNKS], pos: usize, next_val: i64 }
    impl Operator for Src {
        fn next(&mut self) -> OperatorResult {
            if self.pos >= CHUNKS { return Ok(None); }
            let n = self.sizes[self.pos];
            self.pos += 1;
            let mut b = DataChunkBuilder::new(&[LogicalType::Int64]);
            let mut i = 0;
            while i < n {
                b.column_mut(0).unwrap().push_int64(self.next_val);
                self.next_val += 1;
                b.advance_row();
                i += 1;
            }
            Ok(Some(b.finish()))
        }
        fn reset(&mut self) { self.pos = 0; self.next_val = 0; }
        fn name(&self) -> &'static str { "Src" }
    }
    fn src() -> (Box<dyn Operator>, usize) {
        let sizes: [usize; CHUNKS] = [kani::any(), kani::any(), kani::any()];
        kani::assume(sizes[0] <= MAXROWS && sizes[1] <= MAXROWS && sizes[2] <= MAXROWS);
        (Box::new(Src { sizes, pos: 0, next_val: 0 }), sizes[0] + sizes[1] + sizes[2])
    }
    /// pulls until the first None; returns the row numbers seen, in order
    fn drain(op: &mut dyn Operator, out: &mut [i64; CHUNKS * MAXROWS]) -> usize {
        let mut n = 0;
        let mut calls = 0;
        while calls <= CHUNKS + 1 {
            calls += 1;
            match op.next() {
                Ok(Some(c)) => {
                    let rows = c.row_count();
                    let mut r = 0;
                    while r < rows {
                        let v = c.column(0).unwrap().get_int64(r).unwrap();
                        assert!(n < CHUNKS * MAXROWS, "more rows returned than the input holds");
                        out[n] = v;
                        n += 1;
                        r += 1;
                    }
                    std::mem::forget(c);
                }
                Ok(None) => return n,
                Err(_) => panic!("operator error"),
            }
        }
        panic!("operator did not finish");
    }
    fn window(n: usize, out: &[i64; CHUNKS * MAXROWS], total: usize, skip: usize, limit: usize) {
        let expect = if total > skip { if total - skip < limit { total - skip } else { limit } } else { 0 };
        assert!(n == expect, "wrong number of rows for SKIP/LIMIT");
        let mut k = 0;
        while k < n { assert!(out[k] == (skip + k) as i64, "row outside the window s..s+n, or out of order"); k += 1; }
    }

    #[kani::proof]
    #[kani::unwind(9)]
    fn limit_skip_returns_the_window() {
        let (child, total) = src();
        let (skip, limit): (usize, usize) = (kani::any(), kani::any());
        kani::assume(skip <= 7 && limit <= 7);
        let mut op = LimitSkipOperator::new(child, skip, limit, vec![LogicalType::Int64]);
        let mut out = [0i64; CHUNKS * MAXROWS];
        let n = drain(&mut op, &mut out);
        window(n, &out, total, skip, limit);
        kani::cover!(n == 2 && skip == 1);
        std::mem::forget(op);
    }
    #[kani::proof]
    #[kani::unwind(9)]
    fn limit_returns_the_first_n() {
        let (child, total) = src();
        let limit: usize = kani::any();
        kani::assume(limit <= 7);
        let mut op = LimitOperator::new(child, limit, vec![LogicalType::Int64]);
        let mut out = [0i64; CHUNKS * MAXROWS];
        let n = drain(&mut op, &mut out);
        window(n, &out, total, 0, limit);
        kani::cover!(n == 3);
        std::mem::forget(op);
    }
    #[kani::proof]
    #[kani::unwind(9)]
    fn skip_drops_the_first_s() {
        let (child, total) = src();
        let skip: usize = kani::any();
        kani::assume(skip <= 7);
        let mut op = SkipOperator::new(child, skip, vec![LogicalType::Int64]);
        let mut out = [0i64; CHUNKS * MAXROWS];
        let n = drain(&mut op, &mut out);
        window(n, &out, total, skip, usize::MAX);
        kani::cover!(n == 3 && skip == 2);
        std::mem::forget(op);
    }
}
