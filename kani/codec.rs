// Insert-only harness modules for the storage codecs (cfg(kani) only).
//   complete : zig-zag (both copies), bits_needed  - loop-free, all 2^64 inputs
//   BOUNDED  : encoders built from iterator adapters and the byte (de)serialisers - one harness per concrete length
//@@FILE crates/grafeo-core/src/storage/delta.rs
#[cfg(kani)]
mod verif_delta {
    use super::*;
    #[kani::proof]
    fn zigzag_decode_encode() {            // decode(encode(v)) == v for all i64; small magnitudes map to small codes
        let v: i64 = kani::any();
        assert!(zigzag_decode(zigzag_encode(v)) == v);
        if v >= 0 { assert!(zigzag_encode(v) == (v as u64) << 1); } else { assert!(zigzag_encode(v) == ((!(v as u64)) << 1) | 1); }
        kani::cover!(v < 0);
    }
    #[kani::proof]
    fn zigzag_encode_decode() {            // encode(decode(u)) == u for all u64: the pair is a bijection
        let u: u64 = kani::any();
        assert!(zigzag_encode(zigzag_decode(u)) == u);
        kani::cover!(u & 1 == 1);
    }
    macro_rules! delta_len { ($m:ident, $n:expr, $unw:expr) => { mod $m {
        use super::*;
        const N: usize = $n;
        #[kani::proof] #[kani::unwind($unw)]
        fn encode_contract() {             // what unit DELTA's round-trip lemma assumes of the encoder: base, count, deltas == diffs(v)
            let v: [u64; N] = kani::any();
            let mut i = 1; while i < N { kani::assume(v[i - 1] <= v[i]); i += 1; }     // sorted (the encoder's debug_assert)
            let e = DeltaEncoding::encode(&v);
            assert!(e.len() == N);
            if N > 0 {
                assert!(e.base() == v[0] && e.deltas().len() == N - 1);
                let mut i = 1; while i < N { assert!(e.deltas()[i - 1] == v[i] - v[i - 1]); i += 1; }
            }
            let d = e.decode();
            assert!(d.len() == N);
            let mut i = 0; while i < N { assert!(d[i] == v[i]); i += 1; }
            kani::cover!(true);
        }
        #[kani::proof] #[kani::unwind($unw)]
        fn encode_signed_contract() {
            let v: [i64; N] = kani::any();
            let e = DeltaEncoding::encode_signed(&v);
            assert!(e.len() == N);
            if N > 0 {
                assert!(e.base() == zigzag_encode(v[0]) && e.deltas().len() == N - 1);
                let mut i = 1; while i < N { assert!(e.deltas()[i - 1] == zigzag_encode(v[i].wrapping_sub(v[i - 1]))); i += 1; }
            }
            let d = e.decode_signed();
            assert!(d.len() == N);
            let mut i = 0; while i < N { assert!(d[i] == v[i]); i += 1; }
            kani::cover!(true);
        }
        #[kani::proof] #[kani::unwind($unw)]
        fn bytes_roundtrip() {
            let v: [u64; N] = kani::any();
            let mut i = 1; while i < N { kani::assume(v[i - 1] <= v[i]); i += 1; }
            let e = DeltaEncoding::encode(&v);
            let b = e.to_bytes();
            match DeltaEncoding::from_bytes(&b) {
                Ok(e2) => {
                    assert!(e2.len() == e.len() && e2.base() == e.base() && e2.deltas().len() == e.deltas().len());
                    let mut i = 0; while i + 1 < N { assert!(e2.deltas()[i] == e.deltas()[i]); i += 1; }
                }
                Err(_) => assert!(false, "own bytes rejected"),
            }
            kani::cover!(true);
        }
    } } }
    delta_len!(l0, 0, 14); delta_len!(l1, 1, 14); delta_len!(l2, 2, 22); delta_len!(l3, 3, 30); delta_len!(l4, 4, 38);
}
//@@FILE crates/grafeo-core/src/storage/runlength.rs
#[cfg(kani)]
mod verif_rle {
    use super::*;
    #[kani::proof]
    fn zigzag_decode_encode() { let v: i64 = kani::any(); assert!(zigzag_decode(zigzag_encode(v)) == v); kani::cover!(v < 0); }
    #[kani::proof]
    fn zigzag_encode_decode() { let u: u64 = kani::any(); assert!(zigzag_encode(zigzag_decode(u)) == u); kani::cover!(u & 1 == 1); }
    #[kani::proof]
    fn zigzag_copies_agree() {              // runlength.rs and delta.rs carry their own copies
        let v: i64 = kani::any(); let u: u64 = kani::any();
        assert!(zigzag_encode(v) == crate::storage::delta::zigzag_encode(v));
        assert!(zigzag_decode(u) == crate::storage::delta::zigzag_decode(u));
    }
    macro_rules! rle_len { ($m:ident, $n:expr, $unw:expr) => { mod $m {
        use super::*;
        const N: usize = $n;
        #[kani::proof] #[kani::unwind($unw)]
        fn bytes_roundtrip() {             // BOUNDED: encode -> to_bytes -> from_bytes -> decode gives the input back
            let v: [u64; N] = kani::any();
            let e = RunLengthEncoding::encode(&v);
            let b = e.to_bytes();
            match RunLengthEncoding::from_bytes(&b) {
                Ok(e2) => {
                    assert!(e2.total_count() == N && e2.run_count() == e.run_count());
                    let mut i = 0; while i < N { assert!(e2.get(i) == Some(v[i])); i += 1; }
                    assert!(e2.get(N).is_none());
                }
                Err(_) => assert!(false, "own bytes rejected"),
            }
            kani::cover!(true);
        }
        #[kani::proof] #[kani::unwind($unw)]
        fn iterator_and_signed() {         // BOUNDED: the iterator enumerates decode(); the signed wrapper round-trips
            let v: [u64; N] = kani::any();
            let e = RunLengthEncoding::encode(&v);
            let mut it = e.iter();
            let mut i = 0; while i < N { assert!(it.next() == Some(v[i])); i += 1; }
            assert!(it.next().is_none());
            let s: [i64; N] = kani::any();
            let d = SignedRunLengthEncoding::encode(&s).decode();
            assert!(d.len() == N);
            let mut i = 0; while i < N { assert!(d[i] == s[i]); i += 1; }
            kani::cover!(true);
        }
    } } }
    rle_len!(l0, 0, 12); rle_len!(l1, 1, 12); rle_len!(l2, 2, 20); rle_len!(l3, 3, 28);
}
//@@FILE crates/grafeo-core/src/storage/bitpack.rs
#[cfg(kani)]
mod verif_bitpack {
    use super::*;
    #[kani::proof]
    fn bits_needed_tight() {               // complete: the width pack() chooses fits the maximum and is minimal
        let v: u64 = kani::any();
        let b = BitPackedInts::bits_needed(v);
        assert!(1 <= b && b <= 64);
        if b < 64 { assert!(v < (1u64 << b)); }
        if b > 1 { assert!(v >= (1u64 << (b - 1))); }
        kani::cover!(b == 64);
    }
    macro_rules! pack_len { ($m:ident, $n:expr, $unw:expr) => { mod $m {
        use super::*;
        const N: usize = $n;
        #[kani::proof] #[kani::unwind($unw)]
        fn pack_roundtrip() {              // pack = bits_needed(max) + pack_with_bits: establishes pack_with_bits' precondition
            let v: [u64; N] = kani::any();
            let p = BitPackedInts::pack(&v);
            assert!(p.len() == N);
            let mut i = 0; while i < N { assert!(p.get(i) == Some(v[i])); i += 1; }
            assert!(p.get(N).is_none());
            let u = p.unpack();
            assert!(u.len() == N);
            let mut i = 0; while i < N { assert!(u[i] == v[i]); i += 1; }
            kani::cover!(true);
        }
        #[kani::proof] #[kani::unwind($unw)]
        fn delta_bitpacked_roundtrip() {
            let v: [u64; N] = kani::any();
            let mut i = 1; while i < N { kani::assume(v[i - 1] <= v[i]); i += 1; }
            let e = DeltaBitPacked::encode(&v);
            assert!(e.len() == N);
            assert!(e.is_empty() == (N == 0));
            let d = e.decode();
            assert!(d.len() == N);
            let mut i = 0; while i < N { assert!(d[i] == v[i]); i += 1; }
            kani::cover!(true);
        }
        #[kani::proof] #[kani::unwind($unw)]
        fn bytes_roundtrip() {
            let v: [u64; N] = kani::any();
            let p = BitPackedInts::pack(&v);
            let b = p.to_bytes();
            match BitPackedInts::from_bytes(&b) {
                Ok(q) => {
                    assert!(q.len() == N && q.bits_per_value() == p.bits_per_value());
                    let mut i = 0; while i < N { assert!(q.get(i) == Some(v[i])); i += 1; }
                }
                Err(_) => assert!(false, "own bytes rejected"),
            }
            kani::cover!(true);
        }
    } } }
    pack_len!(l0, 0, 12); pack_len!(l1, 1, 12); pack_len!(l2, 2, 20); pack_len!(l3, 3, 28);
}
//@@FILE crates/grafeo-core/src/storage/bitvec.rs
#[cfg(kani)]
mod verif_bitvec {
    use super::*;
    macro_rules! bv_len { ($m:ident, $n:expr, $unw:expr) => { mod $m {
        use super::*;
        const N: usize = $n;
        #[kani::proof] #[kani::unwind($unw)]
        fn bytes_roundtrip() {
            let b: [bool; N] = kani::any();
            let v = BitVector::from_bools(&b);
            let bytes = v.to_bytes();
            match BitVector::from_bytes(&bytes) {
                Ok(w) => { assert!(w.len() == N); let mut i = 0; while i < N { assert!(w.get(i) == Some(b[i])); i += 1; } }
                Err(_) => assert!(false, "own bytes rejected"),
            }
            kani::cover!(true);
        }
        #[kani::proof] #[kani::unwind($unw)]
        fn filled_not_push() {             // the whole-vector constructors leave push/get consistent (stale tail bits)
            let val: bool = kani::any(); let pushed: bool = kani::any();
            let mut v = BitVector::filled(N, val);
            if kani::any() { v = v.not(); }
            let expect = v.get(0);
            v.push(pushed);
            assert!(v.len() == N + 1 && v.get(N) == Some(pushed));
            if N > 0 { assert!(v.get(0) == expect); }
            kani::cover!(true);
        }
    } } }
    bv_len!(l0, 0, 12); bv_len!(l1, 1, 12); bv_len!(l3, 3, 12); bv_len!(l65, 65, 70);
}
//@@FILE crates/grafeo-core/src/storage/codec.rs
#[cfg(kani)]
mod verif_codec {
    use super::*;
    // BOUNDED (length 8 = the smallest input the selector compresses, and 9): the codec the selector picks is one whose
    // precondition the data meets - DeltaBitPacked only for sorted input (its encoder saturates descending steps to 0),
    // BitPacked only with a width every value fits.
    fn check<const N: usize>() {
        let v: [u64; N] = kani::any();
        let c = CodecSelector::select_for_integers(&v);
        match c {
            CompressionCodec::DeltaBitPacked { bits } => {
                let mut i = 1; while i < N { assert!(v[i - 1] <= v[i], "DeltaBitPacked chosen for unsorted input"); i += 1; }
                let mut i = 1; while i < N { let d = v[i] - v[i - 1]; assert!(bits >= 64 || d < (1u64 << bits)); i += 1; }
            }
            CompressionCodec::BitPacked { bits } => {
                let mut i = 0; while i < N { assert!(bits >= 64 || v[i] < (1u64 << bits)); i += 1; }
            }
            CompressionCodec::RunLength | CompressionCodec::None => {}
            _ => assert!(false, "codec not valid for integers"),
        }
        kani::cover!(matches!(c, CompressionCodec::DeltaBitPacked { .. }));
    }
    #[kani::proof] #[kani::unwind(12)] fn selector_sound_len8() { check::<8>(); }
    #[kani::proof] #[kani::unwind(13)] fn selector_sound_len9() { check::<9>(); }
}
