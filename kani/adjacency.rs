// Appended to crates/grafeo-core/src/index/adjacency.rs in the scratch copy (cfg(kani) only).
// BOUNDED stand-in (C15: "compressed adjacency chunks ... decoding what was encoded returns the original"), on the REAL private
// AdjacencyChunk / CompressedAdjacencyChunk:
//   - hot -> cold compression (sort + DeltaBitPacked + BitPackedInts, the C15 codecs) and decompression return the same multiset.
#[cfg(kani)]
mod verif_adjacency {
    use super::*;

    const N: usize = 3;
    fn count_in(ds: &[u64], es: &[u64], n: usize, d: u64, e: u64) -> usize {
        let mut c = 0;
        let mut i = 0;
        while i < n { if ds[i] == d && es[i] == e { c += 1; } i += 1; }
        c
    }

    // one harness per CONCRETE chunk length (a symbolic length does not finish: measured > 20 min)
    fn chunk_roundtrip(n: usize) {
        let (ds, es): ([u64; N], [u64; N]) = (kani::any(), kani::any());
        let mut chunk = AdjacencyChunk::new(N);
        let mut i = 0;
        while i < n { assert!(chunk.push(NodeId::new(ds[i]), EdgeId::new(es[i]))); i += 1; }
        let cold = chunk.compress();
        assert!(cold.len() == n);
        let (mut od, mut oe) = ([0u64; N], [0u64; N]);
        let mut m = 0;
        for (d, e) in cold.iter() {
            assert!(m < N, "decompression yields more entries than were compressed");
            od[m] = d.as_u64(); oe[m] = e.as_u64(); m += 1;
        }
        assert!(m == n, "decompression yields a different number of entries");
        let mut k = 0;
        while k < n {
            assert!(count_in(&od, &oe, n, ds[k], es[k]) == count_in(&ds, &es, n, ds[k], es[k]), "an (neighbour, edge) entry was lost or duplicated by compression");
            k += 1;
        }
        kani::cover!(n < 2 || ds[0] > ds[1]);
        std::mem::forget(chunk); std::mem::forget(cold);
    }
    #[kani::proof] #[kani::unwind(6)] fn chunk_compress_roundtrip_len1() { chunk_roundtrip(1); }
    #[kani::proof] #[kani::unwind(6)] fn chunk_compress_roundtrip_len2() { chunk_roundtrip(2); }
    #[kani::proof] #[kani::unwind(6)] fn chunk_compress_roundtrip_len3() { chunk_roundtrip(3); }
    // AdjacencyList::{add_edge, compact, mark_deleted, iter} over symbolic neighbours did not finish in CBMC (> 25 min at 2 edges): not covered
}
