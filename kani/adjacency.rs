// Appended to crates/grafeo-core/src/index/adjacency.rs in the scratch copy (cfg(kani) only).
// BOUNDED stand-ins (C14: "the neighbour lists and degrees of every node match the set of live edges"), on the REAL private
// AdjacencyChunk / CompressedAdjacencyChunk / AdjacencyList:
//   - hot -> cold compression (sort + DeltaBitPacked + BitPackedInts, the C15 codecs) and decompression return the same multiset;
//   - add_edge / compact / mark_deleted in any interleaving: iter() enumerates exactly the live entries, once each, and degree() counts them.
#[cfg(kani)]
mod verif_adjacency {
    use super::*;

    const N: usize = 3;
    fn count_in(ds: &[u64], es: &[u64], n: usize, d: u64, e: u64) -> usize {
        let mut c = 0;
        let mut i = 0;
        while i < n { if ds[i] == d && es[i] == e { c += 1; } i += 1; }
        c
    }

    // one harness per CONCRETE chunk length (a symbolic length does not finish: measured > 20 min)
    fn chunk_roundtrip(n: usize) {
        let (ds, es): ([u64; N], [u64; N]) = (kani::any(), kani::any());
        let mut chunk = AdjacencyChunk::new(N);
        let mut i = 0;
        while i < n { assert!(chunk.push(NodeId::new(ds[i]), EdgeId::new(es[i]))); i += 1; }
        let cold = chunk.compress();
        assert!(cold.len() == n);
        let (mut od, mut oe) = ([0u64; N], [0u64; N]);
        let mut m = 0;
        for (d, e) in cold.iter() {
            assert!(m < N, "decompression yields more entries than were compressed");
            od[m] = d.as_u64(); oe[m] = e.as_u64(); m += 1;
        }
        assert!(m == n, "decompression yields a different number of entries");
        let mut k = 0;
        while k < n {
            assert!(count_in(&od, &oe, n, ds[k], es[k]) == count_in(&ds, &es, n, ds[k], es[k]), "an (neighbour, edge) entry was lost or duplicated by compression");
            k += 1;
        }
        kani::cover!(n < 2 || ds[0] > ds[1]);
        std::mem::forget(chunk); std::mem::forget(cold);
    }
    #[kani::proof] #[kani::unwind(6)] fn chunk_compress_roundtrip_len1() { chunk_roundtrip(1); }
    #[kani::proof] #[kani::unwind(6)] fn chunk_compress_roundtrip_len2() { chunk_roundtrip(2); }
    #[kani::proof] #[kani::unwind(6)] fn chunk_compress_roundtrip_len3() { chunk_roundtrip(3); }

    const E: usize = 4;     // edges added
    fn list_ops(n: usize, cap: usize) {
        let ds: [u64; E] = kani::any();
        let mut list = AdjacencyList::new();
        let mut i = 0;
        while i < n {
            list.add_edge(NodeId::new(ds[i]), EdgeId::new(i as u64));
            if kani::any() { list.compact(cap); }
            i += 1;
        }
        let del: usize = kani::any();
        kani::assume(del <= E);                     // del >= n: delete nothing
        if del < n { list.mark_deleted(EdgeId::new(del as u64)); }
        if kani::any() { list.compact(cap); }
        let mut seen = [0usize; E];
        let mut total = 0;
        for (d, e) in list.iter() {
            let id = e.as_u64() as usize;
            assert!(id < n, "iter() yields an edge that was never added");
            assert!(d.as_u64() == ds[id], "iter() pairs an edge with the wrong neighbour");
            seen[id] += 1;
            total += 1;
        }
        let mut k = 0;
        while k < n {
            assert!(seen[k] == if k == del { 0 } else { 1 }, "a live edge is missing / duplicated, or a deleted edge is still listed");
            k += 1;
        }
        assert!(list.degree() == total, "degree() disagrees with the enumeration");
        kani::cover!(true);
        std::mem::forget(list);
    }
    #[kani::proof] #[kani::unwind(7)] fn list_ops_n2_cap1() { list_ops(2, 1); }
    #[kani::proof] #[kani::unwind(7)] fn list_ops_n3_cap2() { list_ops(3, 2); }
}
