// Appended to crates/grafeo-core/src/execution/spill/serializer.rs in the scratch copy (cfg(kani) only).
// C16 ("every value survives each serialisation ... spill files ... bit for bit") for the hand-written spill format, on the REAL
// serialize_value / deserialize_value / serialize_row / deserialize_row over byte-slice writers and readers.
//   scalars (Null, Bool, Int64, Float64 with every NaN payload, Timestamp): loop-free, full domain  => complete
//   String / Bytes / Vector / List / row: payload length bounded (stated per harness)              => BOUNDED
#[cfg(kani)]
mod verif_spill {
    use super::*;
    use grafeo_common::types::Timestamp;

    const CAP: usize = 48;
    /// writes v, checks the reported byte count, reads it back and checks that exactly those bytes are consumed
    fn through(v: &Value, buf: &mut [u8; CAP]) -> Value {
        let n = {
            let mut w: &mut [u8] = &mut buf[..];
            let n = serialize_value(v, &mut w).unwrap();
            assert!(CAP - w.len() == n, "serialize_value reports a byte count different from what it wrote");
            n
        };
        let mut r: &[u8] = &buf[..n];
        let back = deserialize_value(&mut r).unwrap();
        assert!(r.is_empty(), "deserialize_value leaves bytes of the value unread");
        back
    }

    #[kani::proof]
    fn scalar_null_bool() {
        let mut buf = [0u8; CAP];
        assert!(matches!(through(&Value::Null, &mut buf), Value::Null));
        let b: bool = kani::any();
        assert!(matches!(through(&Value::Bool(b), &mut buf), Value::Bool(x) if x == b));
        kani::cover!(b);
    }
    #[kani::proof]
    fn scalar_int64() {
        let mut buf = [0u8; CAP];
        let i: i64 = kani::any();
        assert!(matches!(through(&Value::Int64(i), &mut buf), Value::Int64(x) if x == i));
        kani::cover!(i < 0);
    }
    #[kani::proof]
    fn scalar_float64_bit_for_bit() {
        let mut buf = [0u8; CAP];
        let f: f64 = kani::any();
        assert!(matches!(through(&Value::Float64(f), &mut buf), Value::Float64(x) if x.to_bits() == f.to_bits()));
        kani::cover!(f.is_nan());
    }
    #[kani::proof]
    fn scalar_timestamp() {
        let mut buf = [0u8; CAP];
        let t: i64 = kani::any();
        assert!(matches!(through(&Value::Timestamp(Timestamp::from_micros(t)), &mut buf), Value::Timestamp(x) if x.as_micros() == t));
        kani::cover!(t < 0);
    }

    // heap payloads: one harness per CONCRETE length (constant copy lengths keep the tag byte constant, so only the matching arm of
    // deserialize_value is explored; with a symbolic length CBMC walks the List / Map / String arms as well and does not finish)
    fn bytes_n<const N: usize>() {
        let mut buf = [0u8; CAP];
        let data: [u8; N] = kani::any();
        let v = Value::Bytes(Arc::from(&data[..]));
        let back = through(&v, &mut buf);
        match &back {
            Value::Bytes(b) => { assert!(b.len() == N); let mut i = 0; while i < N { assert!(b[i] == data[i]); i += 1; } }
            _ => panic!("Bytes came back as another variant"),
        }
        kani::cover!(true);
        std::mem::forget(v); std::mem::forget(back);
    }
    #[kani::proof] #[kani::unwind(6)] fn bytes_len0() { bytes_n::<0>(); }
    #[kani::proof] #[kani::unwind(6)] fn bytes_len1() { bytes_n::<1>(); }
    #[kani::proof] #[kani::unwind(6)] fn bytes_len3() { bytes_n::<3>(); }
    fn vector_n<const N: usize>() {
        let mut buf = [0u8; CAP];
        let data: [f32; N] = kani::any();
        let v = Value::Vector(Arc::from(&data[..]));
        let back = through(&v, &mut buf);
        match &back {
            Value::Vector(b) => { assert!(b.len() == N); let mut i = 0; while i < N { assert!(b[i].to_bits() == data[i].to_bits()); i += 1; } }
            _ => panic!("Vector came back as another variant"),
        }
        kani::cover!(true);
        std::mem::forget(v); std::mem::forget(back);
    }
    #[kani::proof] #[kani::unwind(6)] fn vector_len0() { vector_n::<0>(); }
    #[kani::proof] #[kani::unwind(6)] fn vector_len2() { vector_n::<2>(); }
    fn ascii_string_n<const N: usize>() {
        let mut buf = [0u8; CAP];
        let data: [u8; N] = kani::any();
        let mut i = 0;
        while i < N { kani::assume(data[i] < 0x80); i += 1; }
        let s = std::str::from_utf8(&data[..]).unwrap();
        let v = Value::String(ArcStr::from(s));
        let back = through(&v, &mut buf);
        match &back {
            Value::String(b) => { let bb = b.as_bytes(); assert!(bb.len() == N); let mut i = 0; while i < N { assert!(bb[i] == data[i]); i += 1; } }
            _ => panic!("String came back as another variant"),
        }
        kani::cover!(true);
        std::mem::forget(v); std::mem::forget(back);
    }
    #[kani::proof] #[kani::unwind(6)] fn ascii_string_len0() { ascii_string_n::<0>(); }
    // non-empty strings: String::from_utf8 on symbolic bytes does not finish in CBMC within 15 min (measured, length 1 and 2) - not covered
    /// a row of two scalar columns of any of the four scalar kinds
    fn scalar(kind: u8) -> Value {
        match kind { 0 => Value::Null, 1 => Value::Bool(kani::any()), 2 => Value::Int64(kani::any()), _ => Value::Float64(kani::any()) }
    }
    fn same_scalar(a: &Value, b: &Value) -> bool {
        match (a, b) {
            (Value::Null, Value::Null) => true,
            (Value::Bool(x), Value::Bool(y)) => x == y,
            (Value::Int64(x), Value::Int64(y)) => x == y,
            (Value::Float64(x), Value::Float64(y)) => x.to_bits() == y.to_bits(),
            _ => false,
        }
    }
    fn row2(k0: u8, k1: u8) {
        let row = [scalar(k0), scalar(k1)];
        let mut buf = [0u8; CAP];
        let n = {
            let mut w: &mut [u8] = &mut buf[..];
            let n = serialize_row(&row, &mut w).unwrap();
            assert!(CAP - w.len() == n);
            n
        };
        let mut r: &[u8] = &buf[..n];
        let back = deserialize_row(&mut r, 2).unwrap();
        assert!(r.is_empty());
        assert!(back.len() == 2 && same_scalar(&back[0], &row[0]) && same_scalar(&back[1], &row[1]), "a spilled row comes back different");
        kani::cover!(true);
        std::mem::forget(back); std::mem::forget(row);
    }
    #[kani::proof] #[kani::unwind(5)] fn row_int_float() { row2(2, 3); }
    #[kani::proof] #[kani::unwind(5)] fn row_null_bool() { row2(0, 1); }
    #[kani::proof] #[kani::unwind(5)] fn row_float_int() { row2(3, 2); }
}
