// Appended to crates/grafeo-core/src/execution/spill/external_sort.rs in the scratch copy (cfg(kani) only).
// C17 ("a sort ... produces the same result whether it fits in memory or spills", "the same rows whether it runs pull-based or push-based"):
// the THREE row comparators of the engine - pull sort (operators/sort.rs), push sort (operators/push/sort.rs, which also sorts each spilled run) and
// the external sort's k-way merge (this file) - must order every pair of rows alike. One harness per pair of value variants, payloads and key
// configuration fully symbolic, single sort column (the loop over keys runs once: unwind 2).
#[cfg(kani)]
mod verif_sortcmp {
    use super::*;
    use crate::execution::operators::push as psort;
    use crate::execution::operators as pullsort;

    fn val(kind: u8) -> Value {
        match kind {
            0 => Value::Null,
            1 => Value::Bool(kani::any()),
            2 => Value::Int64(kani::any()),
            _ => Value::Float64(kani::any()),
        }
    }

    /// spilled-run merge comparator == in-memory (push) comparator, for every key configuration
    fn push_vs_spill(ka: u8, kb: u8) {
        let a = [val(ka)];
        let b = [val(kb)];
        let desc: bool = kani::any();
        let nulls_first: bool = kani::any();
        let sk = [SortKey {
            column: 0,
            direction: if desc { SortDirection::Descending } else { SortDirection::Ascending },
            null_order: if nulls_first { NullOrder::First } else { NullOrder::Last },
        }];
        let pk = [psort::SortKey {
            column: 0,
            direction: if desc { psort::SortDirection::Descending } else { psort::SortDirection::Ascending },
            null_order: if nulls_first { psort::NullOrder::First } else { psort::NullOrder::Last },
        }];
        let s = compare_rows(&a, &b, &sk);
        let p = psort::kani_compare_rows(&a, &b, &pk);
        assert!(s == p, "the external sort's merge orders two rows differently from the in-memory sort of the runs");
        kani::cover!(true);
        std::mem::forget(a);
        std::mem::forget(b);
    }

    /// pull sort's value/NULL comparison == push sort's (ascending key; the direction is applied by the same `reverse()` in both)
    fn pull_vs_push(ka: u8, kb: u8) {
        let a = [val(ka)];
        let b = [val(kb)];
        let nulls_first: bool = kani::any();
        let pk = [psort::SortKey {
            column: 0,
            direction: psort::SortDirection::Ascending,
            null_order: if nulls_first { psort::NullOrder::First } else { psort::NullOrder::Last },
        }];
        let p = psort::kani_compare_rows(&a, &b, &pk);
        let oa = Some(val_copy(&a[0]));
        let ob = Some(val_copy(&b[0]));
        let q = pullsort::kani_compare_values_with_nulls(&oa, &ob, nulls_first);
        assert!(p == q, "pull-based and push-based sort order two rows differently");
        kani::cover!(true);
        std::mem::forget(a);
        std::mem::forget(b);
        std::mem::forget(oa);
        std::mem::forget(ob);
    }

    /// the parallel k-way merge of sorted runs (parallel/merge.rs) == the push sort that produced the runs
    fn merge_vs_push(ka: u8, kb: u8) {
        let a = [val(ka)];
        let b = [val(kb)];
        let nulls_first: bool = kani::any();
        let pk = [psort::SortKey {
            column: 0,
            direction: psort::SortDirection::Ascending,
            null_order: if nulls_first { psort::NullOrder::First } else { psort::NullOrder::Last },
        }];
        let p = psort::kani_compare_rows(&a, &b, &pk);
        let q = crate::execution::parallel::kani_compare_values_for_sort(Some(&a[0]), Some(&b[0]), nulls_first);
        assert!(p == q, "the parallel merge of sorted runs orders two rows differently from the sort that produced the runs");
        kani::cover!(true);
        std::mem::forget(a);
        std::mem::forget(b);
    }
    fn val_copy(v: &Value) -> Value {
        match v {
            Value::Null => Value::Null,
            Value::Bool(x) => Value::Bool(*x),
            Value::Int64(x) => Value::Int64(*x),
            Value::Float64(x) => Value::Float64(*x),
            _ => Value::Null,
        }
    }

    macro_rules! pair { ($n:ident, $f:ident, $a:expr, $b:expr) => { #[kani::proof] #[kani::unwind(2)] fn $n() { $f($a, $b); } }; }
    //@GENERATED@
}
