// Appended to crates/grafeo-common/src/mvcc.rs in the scratch copy (cfg(kani) only).
// VersionInfo / EpochId harnesses are loop-free and complete; chain harnesses are BOUNDED: one harness per
// concrete chain length N (contents fully symbolic), N in 0..=3 (quick) and 4, 5 (thorough).
#[cfg(kani)]
mod verif_mvcc {
    use super::*;

    fn any_info() -> VersionInfo {
        VersionInfo {
            created_epoch: EpochId::new(kani::any()),
            deleted_epoch: if kani::any() { Some(EpochId::new(kani::any())) } else { None },
            created_by: TxId::new(kani::any()),
        }
    }
    // the property's words, executable: committed at-or-before e and not deleted at-or-before e; own writes always
    fn spec_vis_at(v: &VersionInfo, e: u64) -> bool {
        v.created_epoch.as_u64() <= e && match v.deleted_epoch { None => true, Some(d) => d.as_u64() > e }
    }
    fn spec_vis_to(v: &VersionInfo, e: u64, t: u64) -> bool {
        if v.created_by.as_u64() == t { v.deleted_epoch.is_none() } else { spec_vis_at(v, e) }
    }
    fn same_info(a: &VersionInfo, b: &VersionInfo) -> bool {
        a.created_epoch == b.created_epoch && a.created_by == b.created_by && a.deleted_epoch == b.deleted_epoch
    }

    #[kani::proof]
    fn info_visibility_complete() {
        let v = any_info();
        let (e, t): (u64, u64) = (kani::any(), kani::any());
        assert!(v.is_visible_at(EpochId::new(e)) == spec_vis_at(&v, e));
        assert!(v.is_visible_to(EpochId::new(e), TxId::new(t)) == spec_vis_to(&v, e, t));
        assert!(EpochId::new(e).is_visible_at(EpochId::new(t)) == (e <= t));
        let mut w = v;
        w.mark_deleted(EpochId::new(e));
        assert!(w.deleted_epoch == Some(EpochId::new(e)) && w.created_epoch == v.created_epoch && w.created_by == v.created_by);
        kani::cover!(v.is_visible_to(EpochId::new(e), TxId::new(t)));
    }

    macro_rules! chain_harnesses { ($m:ident, $n:expr, $unw:expr) => { mod $m {
        use super::*;
        const N: usize = $n;
        fn build() -> (VersionChain<u8>, [VersionInfo; N]) {
            let mut c: VersionChain<u8> = VersionChain::new();
            let mut infos = [VersionInfo::new(EpochId::new(0), TxId::new(0)); N];
            let mut i = 0;
            while i < N { let info = any_info(); infos[i] = info; c.versions.push_back(Version { info, data: i as u8 }); i += 1; }
            (c, infos)
        }
        fn first_to(infos: &[VersionInfo; N], e: u64, t: u64) -> Option<usize> {
            let mut first = None; let mut i = 0;
            while i < N { if first.is_none() && spec_vis_to(&infos[i], e, t) { first = Some(i); } i += 1; }
            first
        }
        fn first_at(infos: &[VersionInfo; N], e: u64) -> Option<usize> {
            let mut first = None; let mut i = 0;
            while i < N { if first.is_none() && spec_vis_at(&infos[i], e) { first = Some(i); } i += 1; }
            first
        }
        #[kani::proof] #[kani::unwind($unw)]
        fn visible_to() {
            let (c, infos) = build();
            let (e, t): (u64, u64) = (kani::any(), kani::any());
            match (c.visible_to(EpochId::new(e), TxId::new(t)), first_to(&infos, e, t)) {
                (None, None) => {}
                (Some(d), Some(k)) => assert!(*d == k as u8),
                _ => assert!(false),
            }
            kani::cover!(true);
        }
        #[kani::proof] #[kani::unwind($unw)]
        fn visible_at() {
            let (c, infos) = build();
            let e: u64 = kani::any();
            match (c.visible_at(EpochId::new(e)), first_at(&infos, e)) {
                (None, None) => {}
                (Some(d), Some(k)) => assert!(*d == k as u8),
                _ => assert!(false),
            }
            kani::cover!(true);
        }
        #[kani::proof] #[kani::unwind($unw)]
        fn mark_deleted() {
            let (mut c, infos) = build();
            let d: u64 = kani::any();
            let r = c.mark_deleted(EpochId::new(d));
            let mut first = None; let mut i = 0;
            while i < N { if first.is_none() && infos[i].deleted_epoch.is_none() { first = Some(i); } i += 1; }
            assert!(r == first.is_some());
            assert!(c.versions.len() == N);
            let mut i = 0;
            while i < N {
                assert!(c.versions[i].data == i as u8);
                if Some(i) == first {
                    assert!(c.versions[i].info.deleted_epoch == Some(EpochId::new(d)));
                    assert!(c.versions[i].info.created_epoch == infos[i].created_epoch && c.versions[i].info.created_by == infos[i].created_by);
                } else {
                    assert!(same_info(&c.versions[i].info, &infos[i]));
                }
                i += 1;
            }
            kani::cover!(true);
        }
        #[kani::proof] #[kani::unwind($unw)]
        fn remove_versions_by() {
            let (mut c, infos) = build();
            let t: u64 = kani::any();
            c.remove_versions_by(TxId::new(t));
            let (mut j, mut i) = (0, 0);
            while i < N {
                if infos[i].created_by.as_u64() != t {
                    assert!(j < c.versions.len() && c.versions[j].data == i as u8 && same_info(&c.versions[j].info, &infos[i]));
                    j += 1;
                }
                i += 1;
            }
            assert!(j == c.versions.len());      // whole view: exactly the other transactions' versions, order kept
            kani::cover!(true);
        }
        #[kani::proof] #[kani::unwind($unw)]
        fn modified_by_and_has_conflict() {
            let (c, infos) = build();
            let (t, s): (u64, u64) = (kani::any(), kani::any());
            let (mut m, mut h, mut i) = (false, false, 0);
            while i < N {
                if infos[i].created_by.as_u64() == t { m = true; }
                if infos[i].created_by.as_u64() != t && infos[i].created_epoch.as_u64() > s { h = true; }
                i += 1;
            }
            assert!(c.modified_by(TxId::new(t)) == m);
            assert!(c.has_conflict(EpochId::new(s), TxId::new(t)) == h);
            kani::cover!(true);
        }
        #[kani::proof] #[kani::unwind($unw)]
        fn get_mut_copy_on_write() {
            let (mut c, infos) = build();
            let (e, t, me): (u64, u64, u64) = (kani::any(), kani::any(), kani::any());
            let first = first_to(&infos, e, t);
            let got: Option<u8> = c.get_mut(EpochId::new(e), TxId::new(t), EpochId::new(me)).map(|d| *d);
            match first {
                None => { assert!(got.is_none()); assert!(c.versions.len() == N); }
                Some(k) => {
                    assert!(got == Some(k as u8));
                    if infos[k].created_by.as_u64() == t {
                        assert!(c.versions.len() == N);                       // in place
                    } else {
                        assert!(c.versions.len() == N + 1);                   // copy on write: new front version
                        assert!(c.versions[0].data == k as u8);
                        assert!(c.versions[0].info.created_by.as_u64() == t && c.versions[0].info.created_epoch.as_u64() == me
                                && c.versions[0].info.deleted_epoch.is_none());
                    }
                }
            }
            // frame: every old version is still there, unchanged, in order
            let off = c.versions.len() - N;
            let mut i = 0;
            while i < N { assert!(c.versions[i + off].data == i as u8 && same_info(&c.versions[i + off].info, &infos[i])); i += 1; }
            kani::cover!(true);
        }
        #[kani::proof] #[kani::unwind($unw)]
        fn add_version_then_visible_to_writer() {
            let (mut c, infos) = build();
            let (e, t, me): (u64, u64, u64) = (kani::any(), kani::any(), kani::any());
            c.add_version(200, EpochId::new(me), TxId::new(t));
            // read-your-writes
            assert!(c.visible_to(EpochId::new(e), TxId::new(t)) == Some(&200));
            // another reader whose epoch is below the stamp and who is not the writer sees what it saw before
            let (e2, t2): (u64, u64) = (kani::any(), kani::any());
            kani::assume(t2 != t && me > e2);
            match (c.visible_to(EpochId::new(e2), TxId::new(t2)), first_to(&infos, e2, t2)) {
                (None, None) => {}
                (Some(d), Some(k)) => assert!(*d == k as u8),
                _ => assert!(false),
            }
            kani::cover!(true);
        }
    } } }
    chain_harnesses!(n0, 0, 3);
    chain_harnesses!(n1, 1, 4);
    chain_harnesses!(n2, 2, 5);
    chain_harnesses!(n3, 3, 6);
    chain_harnesses!(n4, 4, 7);
    chain_harnesses!(n5, 5, 8);
}
