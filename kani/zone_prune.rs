// Three insert-only modules for the scratch copy (cfg(kani) only):
//   filter.rs   : verif_filter_oracle  - exposes the evaluator's own verdict (the REAL eval_binary_op) to the other harnesses
//   property.rs : verif_zone_prune     - pruning by PropertyColumn::might_match is conservative w.r.t. that evaluator;
//                                        the summary invariant is inductive under the REAL update_zone_map_on_insert
//   store.rs    : verif_range_prune    - ZoneMapEntry::might_contain_range is conservative w.r.t. the REAL value_in_range
//@@FILE crates/grafeo-core/src/execution/operators/filter.rs
#[cfg(kani)]
pub(crate) mod verif_filter_oracle {
    use super::*;
    use std::mem::MaybeUninit;
    pub(crate) fn regex_new_stub(_re: &str) -> Result<Regex, regex::Error> { Err(regex::Error::Syntax(String::new())) }
    pub(crate) fn regex_is_match_stub(_r: &Regex, _h: &str) -> bool { kani::any() }
    /// Does a row holding `stored` pass `WHERE x <op> q` according to the expression evaluator?  (evaluate(): only Some(Bool(true)) passes)
    pub(crate) fn filter_says(stored: &Value, op: u8, q: &Value) -> bool {
        let m: &'static mut MaybeUninit<ExpressionPredicate> = Box::leak(Box::new(MaybeUninit::uninit()));
        let p: &ExpressionPredicate = unsafe { &*m.as_ptr() };      // rule M1: never dereferenced
        let bop = match op {     // 0 Eq, 1 Ne, 2 Lt, 3 Le, 4 Gt, 5 Ge
            0 => BinaryFilterOp::Eq, 1 => BinaryFilterOp::Ne, 2 => BinaryFilterOp::Lt,
            3 => BinaryFilterOp::Le, 4 => BinaryFilterOp::Gt, _ => BinaryFilterOp::Ge,
        };
        let out = p.eval_binary_op(stored, bop, q);
        let r = matches!(out, Some(Value::Bool(true)));
        std::mem::forget(out);
        r
    }
}
//@@FILE crates/grafeo-core/src/execution/operators/mod.rs
#[cfg(kani)]
pub(crate) use filter::verif_filter_oracle;
//@@FILE crates/grafeo-core/src/graph/lpg/property.rs
#[cfg(kani)]
pub(crate) mod verif_zone_prune {
    use super::*;
    use crate::execution::operators::verif_filter_oracle::{filter_says, regex_is_match_stub, regex_new_stub};

    // kind: 0 Int64, 1 Float64, 2 Bool, 3 Null
    fn val(kind: u8) -> Value {
        match kind { 0 => Value::Int64(kani::any()), 1 => Value::Float64(kani::any()), 2 => Value::Bool(kani::any()), _ => Value::Null }
    }
    fn op_of(code: u8) -> CompareOp {
        match code { 0 => CompareOp::Eq, 1 => CompareOp::Ne, 2 => CompareOp::Lt, 3 => CompareOp::Le, 4 => CompareOp::Gt, _ => CompareOp::Ge }
    }
    fn any_op() -> CompareOp { op_of(kani::any::<u8>() % 6) }
    /// Summary invariant of a column's zone map w.r.t. one stored non-null value: what insert/rebuild/builder establish.
    pub(crate) fn summarises(min: &Value, max: &Value, v: &Value) -> bool {
        compare_values(v, min) != Some(Ordering::Less) && compare_values(v, max) != Some(Ordering::Greater)
    }
    /// A column of which only the fields the contracted methods read/write exist (zone_map, zone_map_dirty); the value map,
    /// compression state etc. stay uninitialised and are never touched (building a real column needs hash-map seeding: ahash
    /// RandomState is outside Kani).  It lives on the harness's STACK: behind a leaked Box CBMC loses the constant enum
    /// discriminants and unwinds Value's recursive drop glue for ever (measured: 0.7 s vs > 5 min).
    macro_rules! column { ($col:ident, $zm:expr) => {
        let mut __m = std::mem::MaybeUninit::<PropertyColumn<NodeId>>::uninit();
        let __p = __m.as_mut_ptr();
        let $col: &mut PropertyColumn<NodeId> = unsafe {
            std::ptr::addr_of_mut!((*__p).zone_map).write($zm);
            std::ptr::addr_of_mut!((*__p).zone_map_dirty).write(false);
            &mut *__p
        };
    }; }
    fn entry(min: Value, max: Value, nulls: u64, rows: u64) -> ZoneMapEntry {
        ZoneMapEntry { min: Some(min), max: Some(max), null_count: nulls, row_count: rows, bloom_filter: None }
    }

    // ---- pruning never removes a row the evaluator would return (C10, C14) ----
    // group 0: Eq / Ne (equality semantics)      group 1: Lt / Le / Gt / Ge (order semantics)
    // exact == true restricts the payloads to the sub-domain on which i64 <-> f64 conversion is exact (|i| <= 2^53) and
    // float equality is not decided by the evaluator's absolute epsilon (and no NaN is stored): the KNOWN defect classes are excluded there, so
    // any other disagreement (e.g. a swapped comparison) still fails an obligation that passes on the unchanged tree.
    fn as_f(v: &Value) -> Option<f64> { match v { Value::Int64(i) => Some(*i as f64), Value::Float64(f) => Some(*f), _ => None } }
    fn in_exact_domain(v: &Value) -> bool { match v { Value::Int64(i) => *i >= -(1i64 << 53) && *i <= (1i64 << 53), _ => true } }
    fn prune(group: u8, exact: bool, kmin: u8, kmax: u8, kv: u8, kq: u8) {
        let (min, max, v, q) = (val(kmin), val(kmax), val(kv), val(kq));
        kani::assume(summarises(&min, &max, &v));
        if exact {
            kani::assume(in_exact_domain(&min) && in_exact_domain(&max) && in_exact_domain(&v) && in_exact_domain(&q));
            if group == 0 {
                if let (Some(a), Some(b)) = (as_f(&v), as_f(&q)) { kani::assume(((a - b).abs() < f64::EPSILON) == (a == b)); }   // the evaluator's epsilon test decides exactly like ==
                if let Value::Float64(f) = &v { kani::assume(!f.is_nan()); }     // third known class: a stored NaN vs `<>` pruning
            }
        }
        let (nulls, rows): (u64, u64) = (kani::any(), kani::any());
        kani::assume(nulls < rows);                      // v is a stored non-null value
        column!(col, entry(min, max, nulls, rows));
        col.zone_map_dirty = kani::any();
        // one CONCRETE operator per call: constant propagation then prunes the string / regex / pow arms of eval_binary_op
        if group == 0 {
            prune_op(0, col, &v, &q); prune_op(1, col, &v, &q);
        } else {
            prune_op(2, col, &v, &q); prune_op(3, col, &v, &q); prune_op(4, col, &v, &q); prune_op(5, col, &v, &q);
        }
        kani::cover!(true);
        std::mem::forget(v); std::mem::forget(q);
    }
    fn prune_op(code: u8, col: &PropertyColumn<NodeId>, v: &Value, q: &Value) -> bool {
        let says = filter_says(v, code, q);
        let r = col.might_match(op_of(code), q);
        if says { assert!(r, "zone-map pruning drops a row the filter returns"); }
        says
    }
    macro_rules! prune { ($n:ident, $g:expr, $x:expr, $a:expr, $b:expr, $c:expr, $d:expr) => {
        #[kani::proof] #[kani::stub(regex::Regex::new, regex_new_stub)] #[kani::stub(regex::Regex::is_match, regex_is_match_stub)] fn $n() { prune($g, $x, $a, $b, $c, $d); } }; }
    //@GENERATED-PRUNE@

    // a NULL probe and an all-NULL column
    #[kani::proof]
    fn prune_null_probe() {
        let (nulls, rows): (u64, u64) = (kani::any(), kani::any());
        kani::assume(nulls <= rows);
        column!(col, entry(val(0), val(0), nulls, rows));
        // a stored NULL exists iff null_count > 0 (established by the insert path, see step harnesses)
        if nulls > 0 { assert!(col.might_match(CompareOp::Eq, &Value::Null)); }
    }
    // stale summaries stay conservative (C14): a dirty zone map never prunes
    #[kani::proof]
    fn dirty_never_prunes() {
        column!(col, entry(val(0), val(1), kani::any(), kani::any()));
        col.zone_map_dirty = true;
        let q = val(kani::any::<u8>() % 4);
        assert!(col.might_match(any_op(), &q));
        std::mem::forget(q);
    }

    // ---- the summary invariant is inductive under the real insert path ----
    /// min and max belong to one comparability class (numeric or Bool): the (min, max) kind pairs the prune_* / range_* harnesses range over
    fn same_class(a: &Value, b: &Value) -> bool {
        let num = |v: &Value| matches!(v, Value::Int64(_) | Value::Float64(_));
        (num(a) && num(b)) || (matches!(a, Value::Bool(_)) && matches!(b, Value::Bool(_)))
    }
    fn step(kmin: u8, kmax: u8, kv: u8, kw: u8) {
        let (min, max, v, w) = (val(kmin), val(kmax), val(kv), val(kw));
        kani::assume(summarises(&min, &max, &v));
        let (nulls, rows): (u64, u64) = (kani::any(), kani::any());
        kani::assume(nulls <= rows && rows < u64::MAX);
        column!(col, entry(min, max, nulls, rows));
        col.update_zone_map_on_insert(&w);
        let (min2, max2) = (col.zone_map.min.as_ref().unwrap(), col.zone_map.max.as_ref().unwrap());
        assert!(summarises(min2, max2, &v), "an earlier value fell out of the summary");
        assert!(same_class(min2, max2), "min and max left their common comparability class");
        if !matches!(w, Value::Null) { assert!(summarises(min2, max2, &w), "the inserted value is outside the summary"); }
        assert!(col.zone_map.row_count == rows + 1);
        assert!(col.zone_map.null_count == nulls + (matches!(w, Value::Null) as u64));
        kani::cover!(true);
        std::mem::forget(v); std::mem::forget(w);
    }
    macro_rules! step { ($n:ident, $a:expr, $b:expr, $c:expr, $d:expr) => { #[kani::proof] fn $n() { step($a, $b, $c, $d); } }; }
    //@GENERATED-STEP@

    fn base(kw: u8) {
        let w = val(kw);
        column!(col, ZoneMapEntry::new());
        col.update_zone_map_on_insert(&w);
        if matches!(w, Value::Null) {
            assert!(col.zone_map.min.is_none() && col.zone_map.max.is_none() && col.zone_map.null_count == 1 && col.zone_map.row_count == 1);
        } else {
            assert!(summarises(col.zone_map.min.as_ref().unwrap(), col.zone_map.max.as_ref().unwrap(), &w));
            assert!(same_class(col.zone_map.min.as_ref().unwrap(), col.zone_map.max.as_ref().unwrap()));
            assert!(col.zone_map.null_count == 0 && col.zone_map.row_count == 1);
        }
        kani::cover!(true);
        std::mem::forget(w);
    }
    macro_rules! base { ($n:ident, $a:expr) => { #[kani::proof] fn $n() { base($a); } }; }
    base!(base_int, 0); base!(base_float, 1); base!(base_bool, 2); base!(base_null, 3);
}
//@@FILE crates/grafeo-core/src/graph/lpg/store.rs
#[cfg(kani)]
mod verif_range_prune {
    use super::*;
    use crate::index::zone_map::ZoneMapEntry;
    fn val(kind: u8) -> Value {
        match kind { 0 => Value::Int64(kani::any()), 1 => Value::Float64(kani::any()), _ => Value::Bool(kani::any()) }
    }
    use super::super::property::verif_zone_prune::summarises;     // the invariant the column's insert path maintains
    fn in_exact_domain(v: &Value) -> bool { match v { Value::Int64(i) => *i >= -(1i64 << 53) && *i <= (1i64 << 53), _ => true } }
    // exact == true: integer payloads restricted to |i| <= 2^53, where i64 -> f64 is exact (the KNOWN mixed Int64/Float64 rounding class is
    // excluded there, any other disagreement still fails an obligation that passes on the unchanged tree)
    fn range(exact: bool, kmin: u8, kmax: u8, kv: u8, klo: u8, khi: u8) {
        let (min, max, v) = (val(kmin), val(kmax), val(kv));
        kani::assume(summarises(&min, &max, &v));
        if exact { kani::assume(in_exact_domain(&min) && in_exact_domain(&max) && in_exact_domain(&v)); }
        let (nulls, rows): (u64, u64) = (kani::any(), kani::any());
        kani::assume(nulls < rows);
        let e = ZoneMapEntry::with_min_max(min, max, nulls, rows);
        let lo = if klo == 9 { None } else { Some(val(klo)) };
        let hi = if khi == 9 { None } else { Some(val(khi)) };
        if exact {
            if let Some(l) = &lo { kani::assume(in_exact_domain(l)); }
            if let Some(h) = &hi { kani::assume(in_exact_domain(h)); }
        }
        let (li, hi_incl): (bool, bool) = (kani::any(), kani::any());
        let inside = value_in_range(&v, lo.as_ref(), hi.as_ref(), li, hi_incl);
        let r = e.might_contain_range(lo.as_ref(), hi.as_ref(), li, hi_incl);
        if inside { assert!(r, "range pruning drops a node find_nodes_in_range would return"); }
        kani::cover!(inside);
        std::mem::forget(e); std::mem::forget(v); std::mem::forget(lo); std::mem::forget(hi);
    }
    macro_rules! range { ($n:ident, $x:expr, $a:expr, $b:expr, $c:expr, $d:expr, $e:expr) => { #[kani::proof] fn $n() { range($x, $a, $b, $c, $d, $e); } }; }
    //@GENERATED-RANGE@

    // ---- the range path answers exactly what the expression evaluator answers (C10: range path == plain scan + filter) ----
    use crate::execution::operators::verif_filter_oracle::{filter_says, regex_is_match_stub, regex_new_stub};
    fn agrees(kv: u8, klo: u8, khi: u8) {
        let v = val(kv);
        let lo = if klo == 9 { None } else { Some(val(klo)) };
        let hi = if khi == 9 { None } else { Some(val(khi)) };
        let (li, hi_incl): (bool, bool) = (kani::any(), kani::any());
        let by_range = value_in_range(&v, lo.as_ref(), hi.as_ref(), li, hi_incl);
        // `x >= lo` / `x > lo` and `x <= hi` / `x < hi` as the filter evaluates them (operator codes concrete per branch)
        let lower_ok = match &lo { None => true, Some(l) => if li { filter_says(&v, 5, l) } else { filter_says(&v, 4, l) } };
        let upper_ok = match &hi { None => true, Some(h) => if hi_incl { filter_says(&v, 3, h) } else { filter_says(&v, 2, h) } };
        assert!(by_range == (lower_ok && upper_ok), "find_nodes_in_range and the filter disagree on this row");
        kani::cover!(by_range);
        std::mem::forget(v); std::mem::forget(lo); std::mem::forget(hi);
    }
    macro_rules! agrees { ($n:ident, $a:expr, $b:expr, $c:expr) => {
        #[kani::proof] #[kani::stub(regex::Regex::new, regex_new_stub)] #[kani::stub(regex::Regex::is_match, regex_is_match_stub)] fn $n() { agrees($a, $b, $c); } }; }
    //@GENERATED-AGREES@
}
