// Three insert-only modules for the scratch copy (cfg(kani) only):
//   filter.rs   : verif_filter_oracle  - exposes the evaluator's own verdict (the REAL eval_binary_op) to the other harnesses
//   property.rs : verif_zone_prune     - pruning by PropertyColumn::might_match is conservative w.r.t. that evaluator;
//                                        the summary invariant is inductive under the REAL update_zone_map_on_insert
//   store.rs    : verif_range_prune    - ZoneMapEntry::might_contain_range is conservative w.r.t. the REAL value_in_range
//@@FILE crates/grafeo-core/src/execution/operators/filter.rs
#[cfg(kani)]
pub(crate) mod verif_filter_oracle {
    use super::*;
    use std::mem::MaybeUninit;
    pub(crate) fn regex_new_stub(_re: &str) -> Result<Regex, regex::Error> { Err(regex::Error::Syntax(String::new())) }
    pub(crate) fn regex_is_match_stub(_r: &Regex, _h: &str) -> bool { kani::any() }
    /// Does a row holding `stored` pass `WHERE x <op> q` according to the expression evaluator?  (evaluate(): only Some(Bool(true)) passes)
    pub(crate) fn filter_says(stored: &Value, op: u8, q: &Value) -> bool {
        let m: &'static mut MaybeUninit<ExpressionPredicate> = Box::leak(Box::new(MaybeUninit::uninit()));
        let p: &ExpressionPredicate = unsafe { &*m.as_ptr() };      // rule M1: never dereferenced
        let bop = match op {     // 0 Eq, 1 Ne, 2 Lt, 3 Le, 4 Gt, 5 Ge
            0 => BinaryFilterOp::Eq, 1 => BinaryFilterOp::Ne, 2 => BinaryFilterOp::Lt,
            3 => BinaryFilterOp::Le, 4 => BinaryFilterOp::Gt, _ => BinaryFilterOp::Ge,
        };
        let out = p.eval_binary_op(stored, bop, q);
        let r = matches!(out, Some(Value::Bool(true)));
        std::mem::forget(out);
        r
    }
}
//@@FILE crates/grafeo-core/src/execution/operators/mod.rs
#[cfg(kani)]
pub(crate) use filter::verif_filter_oracle;
//@@FILE crates/grafeo-core/src/graph/lpg/property.rs
#[cfg(kani)]
pub(crate) mod verif_zone_prune {
    use super::*;
    use crate::execution::operators::verif_filter_oracle::{filter_says, regex_is_match_stub, regex_new_stub};

    // kind: 0 Int64, 1 Float64, 2 Bool, 3 Null
    fn val(kind: u8) -> Value {
        match kind { 0 => Value::Int64(kani::any()), 1 => Value::Float64(kani::any()), 2 => Value::Bool(kani::any()), _ => Value::Null }
    }
    fn op_of(code: u8) -> CompareOp {
        match code { 0 => CompareOp::Eq, 1 => CompareOp::Ne, 2 => CompareOp::Lt, 3 => CompareOp::Le, 4 => CompareOp::Gt, _ => CompareOp::Ge }
    }
    fn any_op() -> CompareOp { op_of(kani::any::<u8>() % 6) }
    /// Summary invariant of a column's zone map w.r.t. one stored non-null value: what insert/rebuild/builder establish.
    pub(crate) fn summarises(min: &Value, max: &Value, v: &Value) -> bool {
        compare_values(v, min) != Some(Ordering::Less) && compare_values(v, max) != Some(Ordering::Greater)
    }
    fn column(min: Value, max: Value, nulls: u64, rows: u64) -> PropertyColumn<NodeId> {
        let mut col: PropertyColumn<NodeId> = PropertyColumn::new();
        col.zone_map = ZoneMapEntry { min: Some(min), max: Some(max), null_count: nulls, row_count: rows, bloom_filter: None };
        col
    }

    // ---- pruning never removes a row the evaluator would return (C10, C14) ----
    fn prune(kmin: u8, kmax: u8, kv: u8, kq: u8) {
        let (min, max, v, q) = (val(kmin), val(kmax), val(kv), val(kq));
        kani::assume(summarises(&min, &max, &v));
        let (nulls, rows): (u64, u64) = (kani::any(), kani::any());
        kani::assume(nulls < rows);                      // v is a stored non-null value
        let mut col = column(min, max, nulls, rows);
        col.zone_map_dirty = kani::any();
        let code: u8 = kani::any::<u8>() % 6;
        let says = filter_says(&v, code, &q);
        let r = col.might_match(op_of(code), &q);
        if says { assert!(r, "zone-map pruning drops a row the filter returns"); }
        kani::cover!(says);
        std::mem::forget(col); std::mem::forget(v); std::mem::forget(q);
    }
    macro_rules! prune { ($n:ident, $a:expr, $b:expr, $c:expr, $d:expr) => {
        #[kani::proof] #[kani::stub(regex::Regex::new, regex_new_stub)] #[kani::stub(regex::Regex::is_match, regex_is_match_stub)] fn $n() { prune($a, $b, $c, $d); } }; }
    //@GENERATED-PRUNE@

    // a NULL probe and an all-NULL column
    #[kani::proof]
    fn prune_null_probe() {
        let (nulls, rows): (u64, u64) = (kani::any(), kani::any());
        kani::assume(nulls <= rows);
        let col = column(val(0), val(0), nulls, rows);
        // a stored NULL exists iff null_count > 0 (established by the insert path, see step harnesses)
        if nulls > 0 { assert!(col.might_match(CompareOp::Eq, &Value::Null)); }
        std::mem::forget(col);
    }
    // stale summaries stay conservative (C14): a dirty zone map never prunes
    #[kani::proof]
    fn dirty_never_prunes() {
        let mut col = column(val(0), val(1), kani::any(), kani::any());
        col.zone_map_dirty = true;
        let q = val(kani::any::<u8>() % 4);
        assert!(col.might_match(any_op(), &q));
        std::mem::forget(col); std::mem::forget(q);
    }

    // ---- the summary invariant is inductive under the real insert path ----
    fn step(kmin: u8, kmax: u8, kv: u8, kw: u8) {
        let (min, max, v, w) = (val(kmin), val(kmax), val(kv), val(kw));
        kani::assume(summarises(&min, &max, &v));
        let (nulls, rows): (u64, u64) = (kani::any(), kani::any());
        kani::assume(nulls <= rows && rows < u64::MAX);
        let mut col = column(min, max, nulls, rows);
        col.update_zone_map_on_insert(&w);
        let (min2, max2) = (col.zone_map.min.as_ref().unwrap(), col.zone_map.max.as_ref().unwrap());
        assert!(summarises(min2, max2, &v), "an earlier value fell out of the summary");
        if !matches!(w, Value::Null) { assert!(summarises(min2, max2, &w), "the inserted value is outside the summary"); }
        assert!(col.zone_map.row_count == rows + 1);
        assert!(col.zone_map.null_count == nulls + (matches!(w, Value::Null) as u64));
        kani::cover!(true);
        std::mem::forget(col); std::mem::forget(v); std::mem::forget(w);
    }
    macro_rules! step { ($n:ident, $a:expr, $b:expr, $c:expr, $d:expr) => { #[kani::proof] fn $n() { step($a, $b, $c, $d); } }; }
    //@GENERATED-STEP@

    fn base(kw: u8) {
        let w = val(kw);
        let mut col: PropertyColumn<NodeId> = PropertyColumn::new();
        col.update_zone_map_on_insert(&w);
        if matches!(w, Value::Null) {
            assert!(col.zone_map.min.is_none() && col.zone_map.max.is_none() && col.zone_map.null_count == 1 && col.zone_map.row_count == 1);
        } else {
            assert!(summarises(col.zone_map.min.as_ref().unwrap(), col.zone_map.max.as_ref().unwrap(), &w));
            assert!(col.zone_map.null_count == 0 && col.zone_map.row_count == 1);
        }
        kani::cover!(true);
        std::mem::forget(col); std::mem::forget(w);
    }
    macro_rules! base { ($n:ident, $a:expr) => { #[kani::proof] fn $n() { base($a); } }; }
    base!(base_int, 0); base!(base_float, 1); base!(base_bool, 2); base!(base_null, 3);
}
//@@FILE crates/grafeo-core/src/graph/lpg/store.rs
#[cfg(kani)]
mod verif_range_prune {
    use super::*;
    use crate::index::zone_map::ZoneMapEntry;
    fn val(kind: u8) -> Value {
        match kind { 0 => Value::Int64(kani::any()), 1 => Value::Float64(kani::any()), _ => Value::Bool(kani::any()) }
    }
    use super::super::property::verif_zone_prune::summarises;     // the invariant the column's insert path maintains
    fn range(kmin: u8, kmax: u8, kv: u8, klo: u8, khi: u8) {
        let (min, max, v) = (val(kmin), val(kmax), val(kv));
        kani::assume(summarises(&min, &max, &v));
        let (nulls, rows): (u64, u64) = (kani::any(), kani::any());
        kani::assume(nulls < rows);
        let e = ZoneMapEntry::with_min_max(min, max, nulls, rows);
        let lo = if klo == 9 { None } else { Some(val(klo)) };
        let hi = if khi == 9 { None } else { Some(val(khi)) };
        let (li, hi_incl): (bool, bool) = (kani::any(), kani::any());
        let inside = value_in_range(&v, lo.as_ref(), hi.as_ref(), li, hi_incl);
        let r = e.might_contain_range(lo.as_ref(), hi.as_ref(), li, hi_incl);
        if inside { assert!(r, "range pruning drops a node find_nodes_in_range would return"); }
        kani::cover!(inside);
        std::mem::forget(e); std::mem::forget(v); std::mem::forget(lo); std::mem::forget(hi);
    }
    macro_rules! range { ($n:ident, $a:expr, $b:expr, $c:expr, $d:expr, $e:expr) => { #[kani::proof] fn $n() { range($a, $b, $c, $d, $e); } }; }
    //@GENERATED-RANGE@
}
