// Appended to crates/grafeo-common/src/memory/buffer/grant.rs in the scratch copy (cfg(kani) only).
// Loop-free, all sizes symbolic.  The releaser is a ledger that records exactly what the grant asks for; the obligation is the
// accounting clause of C20 at the level of one grant: what the ledger holds == the sizes of the live grants, after every
// operation, and 0 after all grants are dropped.   SEQUENTIAL: no interleaving is explored.
#[cfg(kani)]
mod verif_grant {
    use super::*;
    use std::sync::atomic::AtomicBool;

    struct Ledger { held: AtomicUsize, refuse: AtomicBool, bad_release: AtomicBool }
    impl GrantReleaser for Ledger {
        fn release(&self, size: usize, _region: MemoryRegion) {
            let h = self.held.load(Ordering::Relaxed);
            if size > h { self.bad_release.store(true, Ordering::Relaxed); }      // released more than is held: double release
            self.held.store(h.wrapping_sub(size), Ordering::Relaxed);
        }
        fn try_allocate_raw(&self, size: usize, _region: MemoryRegion) -> bool {
            if self.refuse.load(Ordering::Relaxed) { return false; }
            let h = self.held.load(Ordering::Relaxed);
            if size > usize::MAX - h { return false; }
            self.held.store(h + size, Ordering::Relaxed);
            true
        }
    }
    fn ledger(initial: usize) -> Arc<Ledger> {
        Arc::new(Ledger { held: AtomicUsize::new(initial), refuse: AtomicBool::new(kani::any()), bad_release: AtomicBool::new(false) })
    }
    fn held(l: &Arc<Ledger>) -> usize { l.held.load(Ordering::Relaxed) }
    fn ok(l: &Arc<Ledger>) -> bool { !l.bad_release.load(Ordering::Relaxed) }

    #[kani::proof]
    fn drop_releases_exactly_once() {
        let size: usize = kani::any();
        let l = ledger(size);
        let g = MemoryGrant::new(l.clone() as Arc<dyn GrantReleaser>, size, MemoryRegion::ExecutionBuffers);
        assert!(g.size() == size && !g.is_consumed());
        drop(g);
        assert!(ok(&l) && held(&l) == 0);
        kani::cover!(size > 0);
    }
    #[kani::proof]
    fn resize_accounts_the_difference() {
        let (size, new_size): (usize, usize) = (kani::any(), kani::any());
        let l = ledger(size);
        let mut g = MemoryGrant::new(l.clone() as Arc<dyn GrantReleaser>, size, MemoryRegion::GraphStorage);
        let r = g.resize(new_size);
        if r { assert!(g.size() == new_size); } else { assert!(g.size() == size); }
        assert!(ok(&l) && held(&l) == g.size());             // the ledger holds exactly what the grant says it holds
        drop(g);
        assert!(ok(&l) && held(&l) == 0);
        kani::cover!(r && new_size > size);
        kani::cover!(r && new_size < size);
    }
    #[kani::proof]
    fn split_preserves_the_total() {
        let (size, amount): (usize, usize) = (kani::any(), kani::any());
        let l = ledger(size);
        let mut g = MemoryGrant::new(l.clone() as Arc<dyn GrantReleaser>, size, MemoryRegion::IndexBuffers);
        match g.split(amount) {
            None => { assert!(amount > size && g.size() == size); }
            Some(h) => {
                assert!(amount <= size && h.size() == amount && g.size() == size - amount && h.region() == g.region());
                assert!(held(&l) == size);
                drop(h);
                assert!(ok(&l) && held(&l) == size - amount);
            }
        }
        drop(g);
        assert!(ok(&l) && held(&l) == 0);
        kani::cover!(amount > 0 && amount < size);
    }
    #[kani::proof]
    fn merge_preserves_the_total_and_releases_once() {
        let (a, b): (usize, usize) = (kani::any(), kani::any());
        kani::assume(a <= usize::MAX - b);
        let l = ledger(a + b);
        let mut g = MemoryGrant::new(l.clone() as Arc<dyn GrantReleaser>, a, MemoryRegion::SpillStaging);
        let h = MemoryGrant::new(l.clone() as Arc<dyn GrantReleaser>, b, MemoryRegion::SpillStaging);
        g.merge(h);                                           // h is consumed: its drop must not release again
        assert!(g.size() == a + b && held(&l) == a + b && ok(&l));
        drop(g);
        assert!(ok(&l) && held(&l) == 0);
        kani::cover!(a > 0 && b > 0);
    }
    #[kani::proof]
    fn consume_hands_over_without_releasing() {
        let size: usize = kani::any();
        let l = ledger(size);
        let g = MemoryGrant::new(l.clone() as Arc<dyn GrantReleaser>, size, MemoryRegion::ExecutionBuffers);
        let s = g.consume();
        assert!(s == size && held(&l) == size && ok(&l));
        kani::cover!(size > 0);
    }
}
