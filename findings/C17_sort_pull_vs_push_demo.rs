//! C17 finding (unit `sortcmp`): the pull-based sort compares Int64 with Float64 numerically, the push-based sort (and the external sort's merge)
//! treated every mixed pair as "equal" - the same ORDER BY over a column holding both integers and floats gave different row orders depending on
//! whether the pipeline ran pull-based or push-based / spilled.
//! Place under crates/grafeo-core/tests/ ; `mixed_numeric_column_sorts_the_same_pull_and_push` fails before the fix and passes after.
use grafeo_common::types::{LogicalType, Value};
use grafeo_core::execution::operators::push::SortPushOperator;
use grafeo_core::execution::operators::{Operator, OperatorResult, SortKey, SortOperator};
use grafeo_core::execution::{CollectorSink, DataChunk, PushOperator, ValueVector};

struct Once(Option<DataChunk>);
impl Operator for Once {
    fn next(&mut self) -> OperatorResult {
        Ok(self.0.take())
    }
    fn reset(&mut self) {}
    fn name(&self) -> &'static str {
        "Once"
    }
}

fn chunk(vals: &[Value]) -> DataChunk {
    DataChunk::new(vec![ValueVector::from_values(vals)])
}

fn pull_sorted(vals: &[Value]) -> Vec<Value> {
    let mut op = SortOperator::new(Box::new(Once(Some(chunk(vals)))), vec![SortKey::ascending(0)], vec![LogicalType::Any]);
    let mut out = Vec::new();
    while let Some(c) = op.next().unwrap() {
        for r in c.selected_indices() {
            out.push(c.column(0).unwrap().get_value(r).unwrap_or(Value::Null));
        }
    }
    out
}

fn push_sorted(vals: &[Value]) -> Vec<Value> {
    let mut op = SortPushOperator::ascending(0);
    let mut sink = CollectorSink::new();
    op.push(chunk(vals), &mut sink).unwrap();
    op.finalize(&mut sink).unwrap();
    let mut out = Vec::new();
    for c in sink.into_chunks() {
        for r in c.selected_indices() {
            out.push(c.column(0).unwrap().get_value(r).unwrap_or(Value::Null));
        }
    }
    out
}

#[test]
fn mixed_numeric_column_sorts_the_same_pull_and_push() {
    let vals = [Value::Int64(2), Value::Float64(1.5), Value::Int64(1), Value::Float64(0.5)];
    assert_eq!(pull_sorted(&vals), push_sorted(&vals));
}

#[test]
fn control_homogeneous_columns_agree() {
    let ints = [Value::Int64(3), Value::Int64(1), Value::Int64(2)];
    assert_eq!(pull_sorted(&ints), push_sorted(&ints));
    let floats = [Value::Float64(3.5), Value::Float64(-1.0), Value::Float64(2.0)];
    assert_eq!(pull_sorted(&floats), push_sorted(&floats));
}
