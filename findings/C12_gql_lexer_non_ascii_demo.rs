//! C12 finding (unit `gqllexer`): the GQL lexer advanced its byte cursor by ONE BYTE per character, so after any non-ASCII character the cursor sat
//! inside a UTF-8 sequence and the next string slice panicked ("byte index N is not a char boundary") - any query text containing a non-ASCII
//! character, even inside a string literal, crashed the embedding process.
//! Place under crates/grafeo-engine/tests/ ; every test fails (panic) before the fix and passes after.
use grafeo_engine::GrafeoDB;

fn run(q: &str) -> bool {
    let db = GrafeoDB::new_in_memory();
    let s = db.session();
    std::panic::catch_unwind(std::panic::AssertUnwindSafe(|| {
        let _ = s.execute(q);
    }))
    .is_ok()
}

#[test]
fn non_ascii_inside_a_string_literal_does_not_panic() {
    assert!(run("MATCH (n) WHERE n.name = 'é' RETURN n"));
    assert!(run("INSERT (:Person {name: 'Zoë', city: '東京'})"));
}

#[test]
fn non_ascii_outside_literals_is_an_error_not_a_panic() {
    assert!(run("MATCH (n) RETURN n é"));
    assert!(run("MATCH (n)\u{00a0}RETURN n")); // no-break space: is_whitespace() but 2 bytes
    assert!(run("é"));
}

#[test]
fn non_ascii_literal_is_stored_and_found() {
    let db = GrafeoDB::new_in_memory();
    let s = db.session();
    s.execute("INSERT (:Person {name: 'Zoë'})").unwrap();
    let r = s.execute("MATCH (n:Person) WHERE n.name = 'Zoë' RETURN n.name").unwrap();
    assert_eq!(r.rows.len(), 1);
}
