//! C11 / C17 finding (unit `pipeline`): Pipeline::push_through returned as soon as an intermediate operator answered "stop" - WITHOUT forwarding the rows
//! that operator had just emitted. A LIMIT that is not the last operator of a push pipeline lost its final rows: LIMIT 3 followed by any other operator
//! over a 5-row chunk produced no rows at all.
//! Place under crates/grafeo-core/tests/ ; fails before the fix, passes after.
use grafeo_common::types::Value;
use grafeo_core::execution::operators::push::{LimitPushOperator, SkipPushOperator};
use grafeo_core::execution::operators::OperatorError;
use grafeo_core::execution::{DataChunk, Pipeline, Sink, Source, ValueVector};
use std::sync::{Arc, Mutex};

struct OneChunk(Option<DataChunk>);
impl Source for OneChunk {
    fn next_chunk(&mut self, _size: usize) -> Result<Option<DataChunk>, OperatorError> {
        Ok(self.0.take())
    }
    fn reset(&mut self) {}
    fn name(&self) -> &'static str {
        "OneChunk"
    }
}
struct Count(Arc<Mutex<usize>>);
impl Sink for Count {
    fn consume(&mut self, chunk: DataChunk) -> Result<bool, OperatorError> {
        *self.0.lock().unwrap() += chunk.len();
        Ok(true)
    }
    fn finalize(&mut self) -> Result<(), OperatorError> {
        Ok(())
    }
    fn name(&self) -> &'static str {
        "Count"
    }
}
fn chunk(n: i64) -> DataChunk {
    let v: Vec<Value> = (0..n).map(Value::Int64).collect();
    DataChunk::new(vec![ValueVector::from_values(&v)])
}

#[test]
fn limit_in_the_middle_of_a_pipeline_keeps_its_rows() {
    let rows = Arc::new(Mutex::new(0usize));
    let mut p = Pipeline::new(
        Box::new(OneChunk(Some(chunk(5)))),
        vec![Box::new(LimitPushOperator::new(3)), Box::new(SkipPushOperator::new(0))],
        Box::new(Count(rows.clone())),
    );
    p.execute().unwrap();
    assert_eq!(*rows.lock().unwrap(), 3);
}

#[test]
fn control_limit_as_the_last_operator() {
    let rows = Arc::new(Mutex::new(0usize));
    let mut p = Pipeline::new(
        Box::new(OneChunk(Some(chunk(5)))),
        vec![Box::new(SkipPushOperator::new(0)), Box::new(LimitPushOperator::new(3))],
        Box::new(Count(rows.clone())),
    );
    p.execute().unwrap();
    assert_eq!(*rows.lock().unwrap(), 3);
}
