//! C10 demonstration: "whether its plan came from the plan cache or was built fresh" must not change the outcome.
//! The plan cache keys a query by its text with every whitespace run collapsed - also INSIDE string literals.
use grafeo_common::types::Value;
use grafeo_engine::GrafeoDB;

fn names(db: &GrafeoDB, q: &str) -> Vec<String> {
    let r = db.session().execute(q).unwrap_or_else(|e| panic!("{q}: {e:?}"));
    let mut v: Vec<String> = r.rows.iter().map(|row| match &row[0] { Value::String(s) => s.to_string(), o => format!("{o:?}") }).collect();
    v.sort();
    v
}

#[test]
fn inserts_differing_only_inside_a_string_literal() {
    let db = GrafeoDB::new_in_memory();
    let s = db.session();
    s.execute("INSERT (:P {name: 'a  b'})").unwrap(); // two spaces
    s.execute("INSERT (:P {name: 'a b'})").unwrap(); // one space: served the cached plan of the statement above
    assert_eq!(names(&db, "MATCH (n:P) RETURN n.name"), vec!["a  b".to_string(), "a b".to_string()]);
}

#[test]
fn filters_differing_only_inside_a_string_literal() {
    let db = GrafeoDB::new_in_memory();
    let s = db.session();
    s.execute("INSERT (:Q {name: 'x  y', k: 1})").unwrap();
    s.execute("INSERT (:Q {name: 'x y', k: 2})").unwrap();
    let first = names(&db, "MATCH (n:Q) WHERE n.k = 1 RETURN n.name");
    assert_eq!(first, vec!["x  y".to_string()]);
    let a = names(&db, "MATCH (n:Q) WHERE n.name = 'x  y' RETURN n.name");
    let b = names(&db, "MATCH (n:Q) WHERE n.name = 'x y' RETURN n.name");
    assert_eq!(a, vec!["x  y".to_string()]);
    assert_eq!(b, vec!["x y".to_string()], "the plan cache changed the answer");
}
