//! C17 finding (unit `morsel`): morsel arithmetic overflowed for legal arguments.
//! Place under crates/grafeo-core/tests/ ; fails (debug: "attempt to add with overflow") before the fix, passes after.
use grafeo_core::execution::parallel::{Morsel, generate_morsels};

#[test]
fn morsel_size_larger_than_any_input_gives_one_morsel() {
    // "any morsel size ... larger than the input": usize::MAX is the natural "do not split" value
    let ms = generate_morsels(10, usize::MAX, 0);
    assert_eq!(ms.len(), 1);
    assert_eq!((ms[0].start_row, ms[0].end_row), (0, 10));
}

#[test]
fn last_morsel_of_a_huge_source_ends_at_the_last_row() {
    let ms = generate_morsels(usize::MAX, usize::MAX - 1, 0);
    assert_eq!(ms.len(), 2);
    assert_eq!((ms[1].start_row, ms[1].end_row), (usize::MAX - 1, usize::MAX));
}

#[test]
fn split_point_far_outside_is_refused() {
    let m = Morsel::new(0, 0, 10, 20);
    assert!(m.split_at(usize::MAX).is_none());
}
