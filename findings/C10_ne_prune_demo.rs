//! C10/C14 demonstration: `<>` pruning by min/max must not drop a row the filter returns.
//! Ground truth is the same predicate written as `(n.x <> q) = true`, a shape the zone-map pre-check does not recognise
//! (so every row is read and filtered by the expression evaluator).
use grafeo_common::types::Value;
use grafeo_engine::GrafeoDB;

fn count(db: &GrafeoDB, q: &str) -> usize {
    db.session().execute(q).unwrap_or_else(|e| panic!("{q}: {e:?}")).rows.len()
}

#[test]
fn ne_on_a_mixed_type_column() {
    let db = GrafeoDB::new_in_memory();
    let s = db.session();
    s.execute("INSERT (:P {name: 'a', x: 0})").unwrap();
    s.execute("INSERT (:P {name: 'b', x: false})").unwrap();
    let unpruned = count(&db, "MATCH (n:P) WHERE (n.x <> 0) = true RETURN n.name");
    let pruned = count(&db, "MATCH (n:P) WHERE n.x <> 0 RETURN n.name");
    assert_eq!(unpruned, 1, "the evaluator says false <> 0 is true");
    assert_eq!(pruned, unpruned, "WHERE n.x <> 0 must return the rows on which `n.x <> 0` evaluates to true");
}

#[test]
fn ne_on_a_column_holding_nan() {
    let db = GrafeoDB::new_in_memory();
    let a = db.create_node(&["Q"]);
    let b = db.create_node(&["Q"]);
    db.set_node_property(a, "x", Value::Float64(5.0));
    db.set_node_property(b, "x", Value::Float64(f64::NAN));
    let unpruned = count(&db, "MATCH (n:Q) WHERE (n.x <> 5.0) = true RETURN n");
    let pruned = count(&db, "MATCH (n:Q) WHERE n.x <> 5.0 RETURN n");
    assert_eq!(pruned, unpruned);
}
