//! C17 finding (unit `sortcmp`): the parallel k-way merge of sorted runs (parallel/merge.rs) called every Int64 / Float64 pair "equal", while the sorts
//! that produce the runs compare them numerically - merging two correctly sorted runs of a mixed numeric column gave an unsorted result.
//! Place under crates/grafeo-core/tests/ ; fails before the fix, passes after.
use grafeo_common::types::Value;
use grafeo_core::execution::parallel::{SortKey, merge_sorted_runs};

#[test]
fn merging_sorted_runs_of_a_mixed_numeric_column_stays_sorted() {
    let run1 = vec![vec![Value::Int64(1)], vec![Value::Float64(2.5)], vec![Value::Int64(4)]];
    let run2 = vec![vec![Value::Float64(1.5)], vec![Value::Int64(3)], vec![Value::Float64(3.5)]];
    let merged = merge_sorted_runs(vec![run1, run2], &[SortKey::ascending(0)]).unwrap();
    let as_f: Vec<f64> = merged
        .iter()
        .map(|r| match &r[0] {
            Value::Int64(i) => *i as f64,
            Value::Float64(f) => *f,
            _ => f64::NAN,
        })
        .collect();
    assert_eq!(as_f, vec![1.0, 1.5, 2.5, 3.0, 3.5, 4.0]);
}
