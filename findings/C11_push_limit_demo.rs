//! C11 / C17 finding (unit `pushlimit`): the push-based LIMIT / SKIP operators truncated a chunk with `chunk.filter(&SelectionVector::new_all(n))` /
//! `from_predicate(len, |i| i >= start)`: (a) on a chunk that carries a selection vector (what the pull FilterOperator hands to a push pipeline through
//! OperatorSource) the first n PHYSICAL rows are taken and then intersected with the selection - LIMIT 3 over 5 selected rows returned 0 rows;
//! (b) `new_all(n)` asserts n <= 65535 - LIMIT 66000 over one 70000-row chunk (what SortPushOperator emits) panicked; (c) `from_predicate` stores
//! indices as u16 - SKIP 1 over a 70000-row chunk returned wrapped (wrong) rows.
//! Place under crates/grafeo-core/tests/ ; the three tests fail before the fix and pass after.
use grafeo_common::types::Value;
use grafeo_core::execution::operators::push::{LimitPushOperator, SkipPushOperator};
use grafeo_core::execution::{CollectorSink, DataChunk, PushOperator, SelectionVector, ValueVector};

fn chunk(n: i64) -> DataChunk {
    let v: Vec<Value> = (0..n).map(Value::Int64).collect();
    DataChunk::new(vec![ValueVector::from_values(&v)])
}
fn ints(sink: CollectorSink) -> Vec<i64> {
    let mut out = Vec::new();
    for c in sink.into_chunks() {
        for r in c.selected_indices() {
            if let Some(Value::Int64(i)) = c.column(0).unwrap().get_value(r) {
                out.push(i);
            }
        }
    }
    out
}

#[test]
fn limit_over_a_chunk_with_a_selection_vector() {
    let mut c = chunk(10);
    c.set_selection(SelectionVector::from_predicate(10, |i| i >= 5)); // logical rows 5,6,7,8,9
    let mut op = LimitPushOperator::new(3);
    let mut sink = CollectorSink::new();
    op.push(c, &mut sink).unwrap();
    assert_eq!(ints(sink), vec![5, 6, 7]);
}

#[test]
fn limit_larger_than_65535_over_one_big_chunk() {
    let mut op = LimitPushOperator::new(66_000);
    let mut sink = CollectorSink::new();
    op.push(chunk(70_000), &mut sink).unwrap();
    let got = ints(sink);
    assert_eq!(got.len(), 66_000);
    assert_eq!(got[65_999], 65_999);
}

#[test]
fn skip_over_one_big_chunk() {
    let mut op = SkipPushOperator::new(1);
    let mut sink = CollectorSink::new();
    op.push(chunk(70_000), &mut sink).unwrap();
    let got = ints(sink);
    assert_eq!(got.len(), 69_999);
    assert_eq!(got[0], 1);
    assert_eq!(got[69_998], 69_999);
}
