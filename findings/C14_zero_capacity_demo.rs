//! C14 demonstration: neighbour lists match the set of live edges - for every chunk capacity the constructor accepts.
//! (crates/grafeo-core/tests/; fails before fix "ChunkedAdjacency::with_chunk_capacity(0)", passes after)
use grafeo_common::types::{EdgeId, NodeId};
use grafeo_core::index::ChunkedAdjacency;

#[test]
fn compaction_keeps_every_edge_even_with_capacity_zero() {
    let adj = ChunkedAdjacency::with_chunk_capacity(0);
    adj.add_edge(NodeId::new(0), NodeId::new(1), EdgeId::new(100));
    adj.add_edge(NodeId::new(0), NodeId::new(2), EdgeId::new(101));
    assert_eq!(adj.neighbors(NodeId::new(0)).len(), 2, "before compaction");
    adj.compact();
    assert_eq!(adj.neighbors(NodeId::new(0)).len(), 2, "compaction lost edges");
    assert_eq!(adj.out_degree(NodeId::new(0)), adj.active_edge_count(), "degree vs count");
}
