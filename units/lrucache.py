"""Unit LRUCACHE (C10: "whether its plan came from the plan cache or was built fresh"): the LRU store behind the plan cache,
LruCache::{new, get, put, evict_lru, remove, clear, len} - a lookup returns exactly the value last stored under THAT key (never another
key's) and storing touches no other key's value (it may evict one).  The recency list only steers eviction and is under no obligation.

E1: monomorphised to the one instantiation that exists (K = CacheKey, V = the cached plan), both opaque with structural Eq / Hash / Clone;
`Instant` is opaque.  The cache KEY itself (CacheKey::new / normalize_query: string processing) is covered by the bounded Kani unit CACHE."""
import re

from vlib import Unit

SRC = 'crates/grafeo-engine/src/query/cache.rs'

TEMPLATE = r'''
use vstd::prelude::*;
use std::collections::HashMap;
use vstd::std_specs::hash::*;
verus! {
broadcast use vstd::std_specs::hash::group_hash_axioms;

// E1 stand-ins
#[verifier::external_body] #[derive(PartialEq, Eq)] pub struct K { _p: () }          // CacheKey
impl std::hash::Hash for K { #[verifier::external_body] fn hash<H: std::hash::Hasher>(&self, state: &mut H) { } }
impl Clone for K { #[verifier::external_body] fn clone(&self) -> (r: Self) ensures r == *self { unimplemented!() } }
impl vstd::std_specs::cmp::PartialEqSpecImpl for K {
    open spec fn obeys_eq_spec() -> bool { true }
    open spec fn eq_spec(&self, other: &K) -> bool { *self == *other }
}
pub assume_specification[ <K as PartialEq>::eq ](a: &K, b: &K) -> (r: bool) ensures r == (*a == *b);
#[verifier::external_body] pub struct V { _p: () }                                     // LogicalPlan
impl Clone for V { #[verifier::external_body] fn clone(&self) -> (r: Self) ensures r == *self { unimplemented!() } }
#[verifier::external_body] #[derive(Clone, Copy)] pub struct Instant { _p: () }
impl Instant { #[verifier::external_body] pub fn now() -> Instant { unimplemented!() } }
pub proof fn axiom_k_keys() ensures obeys_key_model::<K>() { admit(); }
pub assume_specification<'a, KK, VV, S, A, Q>[ HashMap::<KK, VV, S, A>::get_mut::<Q> ](m: &'a mut HashMap<KK, VV, S, A>, k: &Q) -> (r: Option<&'a mut VV>)
    where KK: Eq + std::hash::Hash + std::borrow::Borrow<Q>, Q: std::hash::Hash + Eq + ?Sized, S: std::hash::BuildHasher, A: std::alloc::Allocator
    ensures
        obeys_key_model::<KK>() && builds_valid_hashers::<S>() ==> match r {
            Some(v) => contains_borrowed_key(old(m)@, k) && maps_borrowed_key_to_value(old(m)@, k, *v)
                && contains_borrowed_key(final(m)@, k) && maps_borrowed_key_to_value(final(m)@, k, *final(v))
                && (exists|mid: Map<KK, VV>| borrowed_key_removed(old(m)@, mid, k) && borrowed_key_removed(final(m)@, mid, k)),
            None => !contains_borrowed_key(old(m)@, k) && final(m)@ == old(m)@,
        }
;

@@CacheEntry@@
impl CacheEntry<V> {
    @@CacheEntry::new@@
    @@CacheEntry::access@@
}

@@LruCache@@

/// what the cache answers: key -> stored value
pub open spec fn view_of(e: Map<K, CacheEntry<V>>) -> Map<K, V> { e.map_values(|x: CacheEntry<V>| x.value) }
proof fn lemma_get_mut_frame(pre: Map<K, CacheEntry<V>>, post: Map<K, CacheEntry<V>>, k: K)
    requires pre.contains_key(k), post.contains_key(k), exists|mid: Map<K, CacheEntry<V>>| borrowed_key_removed(pre, mid, &k) && borrowed_key_removed(post, mid, &k), obeys_key_model::<K>(),
    ensures post.dom() == pre.dom(), forall|o: K| o != k && pre.contains_key(o) ==> post[o] == pre[o],
{
    let mid = choose|mid: Map<K, CacheEntry<V>>| borrowed_key_removed(pre, mid, &k) && borrowed_key_removed(post, mid, &k);
    assert(mid == pre.remove(k)); assert(mid == post.remove(k));
    assert forall|kk: K| post.contains_key(kk) == pre.contains_key(kk) by { if kk != k { assert(mid.contains_key(kk) == pre.contains_key(kk)); assert(mid.contains_key(kk) == post.contains_key(kk)); } }
    assert(post.dom() =~= pre.dom());
    assert forall|o: K| o != k && pre.contains_key(o) implies post[o] == pre[o] by { assert(mid[o] == pre[o]); assert(mid[o] == post[o]); }
}

impl LruCache<K, V> {
    pub open spec fn view(&self) -> Map<K, V> { view_of(self.entries@) }
    pub open spec fn counters_ok(&self) -> bool { forall|k: K| #[trigger] self.entries@.contains_key(k) ==> self.entries@[k].access_count < u64::MAX }

    @@LruCache::new@@

    @@LruCache::get@@

    @@LruCache::put@@

    @@LruCache::evict_lru@@

    @@LruCache::clear@@

    @@LruCache::len@@

    @@LruCache::remove@@
}


// ================= QueryCache: the two plan caches + statistics =================
// E2: atomic counters, sequentially
fn fetch_add_u64(a: &mut u64, v: u64) -> (o: u64) ensures o == *old(a) { let o = *a; *a = o.wrapping_add(v); o }
@@QueryCache@@
impl QueryCache {
    @@QueryCache::get_parsed@@

    @@QueryCache::put_parsed@@

    @@QueryCache::get_optimized@@

    @@QueryCache::put_optimized@@

    @@QueryCache::invalidate@@

    @@QueryCache::clear@@
}
} // verus!
fn main() {}
'''

POS_INV = [('scan', 'forall|q: int| 0 <= q < %(i)s && %(p)s is None ==> %(e)s@[q] != *%(key)s'),
           ('found', '%(p)s is Some ==> %(p)s->0 < %(i)s && %(e)s@[%(p)s->0 as int] == *%(key)s'),
           ('frame', '%(frame)s')]


def build(repo):
    u = Unit('lrucache', ['C10'], repo, TEMPLATE, features=['allocator_api'], edition2024=True)
    for w, why in [('external_body K', 'E1: CacheKey is opaque; structural Eq / Hash / Clone'), ('external_body K::hash', 'E1'), ('external_body K::clone', 'E1: derived Clone'),
                   ('assume_specification K::eq', 'derived PartialEq of CacheKey is structural'), ('external_body V', 'E1: the cached plan is opaque'), ('external_body V::clone', 'E1: derived Clone yields an equal plan'),
                   ('external_body Instant', 'E1: std::time::Instant'), ('external_body Instant::now', 'E1'), ('admit axiom_k_keys', 'derived Hash/Eq of CacheKey are lawful'),
                   ('assume_specification HashMap::get_mut', 'std semantics (as in the other units)')]:
        u.trust(w, why)
    u.assume('E1: LruCache<K, V> is verified at its only instantiation (K = CacheKey, V = plan), both opaque')
    ce = u.item(SRC, 'struct', 'CacheEntry').D1(keep_derive=set()).V1().resub('V1', r'^struct CacheEntry', 'pub struct CacheEntry', flags=re.M)
    lc = u.item(SRC, 'struct', 'LruCache').D1(keep_derive=set()).V1().resub('V1', r'^struct LruCache', 'pub struct LruCache', flags=re.M)
    f = u.method(SRC, 'CacheEntry', 'new').D1().ret('r').resub('E1', r'\bT\b', 'V')
    f.ensures('fields', 'r.value == value && r.access_count == 0')
    f = u.method(SRC, 'CacheEntry', 'access').D1().ret('r').resub('E1', r'\bT\b', 'V')
    f.requires('counter_room', 'old(self).access_count < u64::MAX')       # machine range of the access counter
    f.ensures('returns_the_stored_value', 'r == old(self).value && final(self).value == old(self).value')
    f = u.method(SRC, 'LruCache', 'new').D1().ret('r')
    f.ensures('empty', 'r.view() =~= Map::<K, V>::empty() && r.capacity == capacity')
    f.body_start('proof { axiom_k_keys(); }')
    # NOTE: the recency list (`access_order`) decides WHICH key is evicted, never what a lookup answers; C10 is about answers, so no
    # obligation is put on it beyond what the code itself needs (`remove(pos)` in bounds) - an eviction-policy change must stay quiet.
    POS = [('found', '%(p)s is Some ==> %(p)s->0 < %(i)s'), ('frame', '%(frame)s')]

    f = u.method(SRC, 'LruCache', 'get').D1().R38().ret('r')
    f.requires('counter_room', 'old(self).counters_ok()')
    f.ensures('hit_returns_the_value_stored_under_this_key', 'match r { Some(v) => old(self).view().contains_key(*key) && v == old(self).view()[*key], None => !old(self).view().contains_key(*key) }')
    f.ensures('answers_unchanged', 'final(self).view() =~= old(self).view()')
    f.body_start('proof { axiom_k_keys(); }\nlet ghost E0 = self.entries@;')
    L = f.loop('in 0..self.access_order.len()').kind('for')
    L.invariants(*[(n, t % dict(i='i__p1', p='pos__1', frame='self.access_order@.len() == old(self).access_order@.len()')) for n, t in POS])
    f.before('if let Some(entry) = self.entries.get_mut(key)', 'let r__ = ')
    f.body_end(''';
proof {
    if E0.contains_key(*key) { lemma_get_mut_frame(E0, self.entries@, *key); assert(self.view() =~= view_of(E0)); }
}
r__''')

    f = u.method(SRC, 'LruCache', 'evict_lru').D1()
    f.ensures('evicts_at_most_one_key_and_changes_no_value', 'forall|k: K| #![trigger final(self).view().contains_key(k)] final(self).view().contains_key(k) ==> old(self).view().contains_key(k) && final(self).view()[k] == old(self).view()[k]')
    f.ensures('frame', 'final(self).capacity == old(self).capacity && (old(self).counters_ok() ==> final(self).counters_ok())')
    f.body_start('proof { axiom_k_keys(); }')

    f = u.method(SRC, 'LruCache', 'put').D1().R38()
    f.ensures('stores_the_value_under_this_key', 'final(self).view().contains_key(key) && final(self).view()[key] == value')
    f.ensures('other_keys_keep_their_value_or_are_evicted', 'forall|k: K| #![trigger final(self).view().contains_key(k)] k != key && final(self).view().contains_key(k) ==> old(self).view().contains_key(k) && final(self).view()[k] == old(self).view()[k]')
    f.body_start('proof { axiom_k_keys(); }\nlet ghost E0 = self.entries@;')
    f.before('let mut pos__1', '''let ghost E1 = self.entries@; let ghost n1 = self.access_order@.len();
proof {
    assert forall|k: K| #![trigger view_of(E1).contains_key(k)] view_of(E1).contains_key(k) implies view_of(E0).contains_key(k) && view_of(E1)[k] == view_of(E0)[k] by { assert(self.view().contains_key(k)); }
}''')
    L = f.loop('in 0..self.access_order.len()').kind('for')
    L.invariants(*[(n, t % dict(i='i__p1', p='pos__1', frame='self.access_order@.len() == n1 && self.entries@ == E1')) for n, t in POS])
    f.body_end('''proof {
    assert forall|k: K| #![trigger self.view().contains_key(k)] k != key && self.view().contains_key(k) implies view_of(E0).contains_key(k) && self.view()[k] == view_of(E0)[k] by {
        assert(E1.contains_key(k) && self.entries@[k] == E1[k]);
        assert(view_of(E1).contains_key(k) && view_of(E1)[k] == E1[k].value);
        assert(view_of(E0).contains_key(k) && view_of(E0)[k] == view_of(E1)[k]);      // E1 is E0 or E0 minus the evicted key
    }
}''')

    f = u.method(SRC, 'LruCache', 'clear').D1()
    f.ensures('empty', 'final(self).view() =~= Map::<K, V>::empty()')
    f.body_start('proof { axiom_k_keys(); }')
    f = u.method(SRC, 'LruCache', 'len').D1().ret('r')
    f.ensures('len', 'r == self.entries@.len()')
    f.body_start('proof { axiom_k_keys(); }')
    f = u.method(SRC, 'LruCache', 'remove').D1().R38().ret('r')
    f.R10('map', 'CacheEntry<V>', lambda i: 'ensures r == e.value,', ret_ty='V')
    f.ensures('removes_exactly_this_key', 'final(self).view() =~= old(self).view().remove(*key)')
    f.ensures('returns_its_value', 'r == (if old(self).view().contains_key(*key) { Some(old(self).view()[*key]) } else { None::<V> })')
    f.body_start('proof { axiom_k_keys(); }\nlet ghost E0 = self.entries@;')
    L = f.loop('in 0..self.access_order.len()').kind('for')
    L.invariants(*[(n, t % dict(i='i__p1', p='pos__1', frame='self.access_order@.len() == old(self).access_order@.len() && self.entries@ == E0')) for n, t in POS])
    # ---- QueryCache ----
    qc = u.item(SRC, 'struct', 'QueryCache').D1(keep_derive=set()).V1()
    qc.resub('E3', r'Mutex<LruCache<CacheKey, LogicalPlan>>', 'LruCache<K, V>', count=2)
    qc.resub('E2', r'AtomicU64', 'u64', count=4)
    def qsubs(f, mutable=True):
        f.resub_opt('E1', r'&CacheKey\b', '&K'); f.resub_opt('E1', r'\bCacheKey\b', 'K'); f.resub_opt('E1', r'\bLogicalPlan\b', 'V')
        f.resub_opt('E3', r'\.lock\(\)', '')
        f.resub_opt('E2', r'self\.(\w+)\.fetch_add\(1, Ordering::Relaxed\)', r'fetch_add_u64(&mut self.\1, 1)')
        f.resub('E3', r'\(&self', '(&mut self')
        return f
    for kind in ('parsed', 'optimized'):
        other = 'optimized' if kind == 'parsed' else 'parsed'
        f = qsubs(u.method(SRC, 'QueryCache', 'get_' + kind).D1().ret('r'))
        f.requires('counter_room', 'old(self).%s_cache.counters_ok()' % kind)
        f.ensures('answers_from_this_cache_only', 'r == (if old(self).enabled && old(self).%s_cache.view().contains_key(*key) { Some(old(self).%s_cache.view()[*key]) } else { None::<V> })' % (kind, kind))
        f.ensures('plans_unchanged', 'final(self).%s_cache.view() =~= old(self).%s_cache.view() && final(self).%s_cache == old(self).%s_cache && final(self).enabled == old(self).enabled' % (kind, kind, other, other))
        f = qsubs(u.method(SRC, 'QueryCache', 'put_' + kind).D1())
        f.ensures('stores_the_plan', 'old(self).enabled ==> final(self).%s_cache.view().contains_key(key) && final(self).%s_cache.view()[key] == plan' % (kind, kind))
        f.ensures('other_plans_untouched', 'forall|k: K| #![trigger final(self).%s_cache.view().contains_key(k)] k != key && final(self).%s_cache.view().contains_key(k) ==> old(self).%s_cache.view().contains_key(k) && final(self).%s_cache.view()[k] == old(self).%s_cache.view()[k]' % (kind, kind, kind, kind, kind))
        f.ensures('disabled_stores_nothing', '!old(self).enabled ==> final(self).%s_cache == old(self).%s_cache' % (kind, kind))
        f.ensures('frame', 'final(self).%s_cache == old(self).%s_cache && final(self).enabled == old(self).enabled' % (other, other))
    f = qsubs(u.method(SRC, 'QueryCache', 'invalidate').D1())
    f.ensures('both_caches_forget_the_key', 'final(self).parsed_cache.view() =~= old(self).parsed_cache.view().remove(*key) && final(self).optimized_cache.view() =~= old(self).optimized_cache.view().remove(*key)')
    f = qsubs(u.method(SRC, 'QueryCache', 'clear').D1())
    f.ensures('both_caches_empty', 'final(self).parsed_cache.view() =~= Map::<K, V>::empty() && final(self).optimized_cache.view() =~= Map::<K, V>::empty()')
    u.not_covered += ['QueryCache::{new, disabled, stats, reset_stats}, CachingQueryProcessor, how Session uses the cache', 'CacheKey::new / normalize_query (strings; bounded Kani unit CACHE)']
    return u
