"""Unit WALREC (C06): the log READER.  "A record that is torn or fails its checksum is never applied", "the next open ... produces a state that some
prefix of the issued operations would have produced", "uncommitted tail discarded" - as contracts on the real WalRecovery::{read_record, recover_file}
over EVERY byte string the log file may hold (so: every truncation point and every corruption of the file content), plus lemmas over the contracts for
the crash shapes the property names (a log cut anywhere inside its last frame; a frame whose checksum does not match).

The file layer is a declared stand-in (rule E1/R31): `BufReader<File>` -> ByteReader whose state is the sequence of bytes not yet consumed; `read_exact`
is ASSUMED to behave as std documents (fills the buffer and consumes exactly that many bytes, or fails with UnexpectedEof when fewer remain).  crc32fast::hash
and the bincode decoder are uninterpreted functions of the payload bytes."""
import re

from vlib import Unit
from rsx import LostAnchor

REC = 'crates/grafeo-adapters/src/storage/wal/record.rs'
SRC = 'crates/grafeo-adapters/src/storage/wal/recovery.rs'

TEMPLATE = r'''
use vstd::prelude::*;
verus! {
global size_of usize == 8;

// ---- E1 stand-ins: identifier / value types are opaque here (the reader never looks inside a record's fields) ----
#[verifier::external_body] pub struct NodeId { _p: u64 }
#[verifier::external_body] pub struct EdgeId { _p: u64 }
#[verifier::external_body] pub struct TxId { _p: u64 }
#[verifier::external_body] pub struct Value { _p: u64 }
@@WalRecord@@
// of grafeo_common::utils::error::{Error, StorageError} only the variants these functions construct
pub enum StorageError { Corruption(String) }
pub enum Error { Storage(StorageError), Serialization(String), Io(IoErr) }
pub type Result<T> = std::result::Result<T, Error>;
#[verifier::external_body] fn msg() -> String { String::new() }

// ---- ASSUMED environment (each item is listed in the evidence) ----------------------------------------------------------
pub uninterp spec fn le4(x: u32) -> Seq<u8>;
pub uninterp spec fn unle4(s: Seq<u8>) -> u32;
#[verifier::external_body] pub proof fn axiom_le() ensures forall|x: u32| #![trigger le4(x)] le4(x).len() == 4 && unle4(le4(x)) == x { }
/// crc32fast::hash and bincode's decoder: deterministic functions of the payload bytes, otherwise unknown
pub uninterp spec fn crc32(d: Seq<u8>) -> u32;
pub uninterp spec fn decode(d: Seq<u8>) -> Option<WalRecord>;
#[verifier::external_body] pub struct IoErr { e: std::io::Error }
pub uninterp spec fn is_eof(e: IoErr) -> bool;
#[verifier::external_body] fn io_is_unexpected_eof(e: &IoErr) -> (r: bool) ensures r == is_eof(*e) { e.e.kind() == std::io::ErrorKind::UnexpectedEof }
#[verifier::external_body] fn io_to_error(e: IoErr) -> (r: Error) ensures r is Io { Error::Io(e) }
#[verifier::external_body] fn le_u32_of(b: [u8; 4]) -> (r: u32) ensures r == unle4(b@) { u32::from_le_bytes(b) }
// slice forms of the same helpers (a reader written over `&[u8]` pieces instead of owned buffers)
#[verifier::external_body] fn split_at_vec(v: &Vec<u8>, k: usize) -> (r: (&[u8], &[u8])) requires k <= v@.len() ensures r.0@ == v@.subrange(0, k as int), r.1@ == v@.subrange(k as int, v@.len() as int) { v.split_at(k) }
#[verifier::external_body] fn le_u32_of_slice(b: &[u8]) -> (r: u32) requires b@.len() >= 4 ensures r == unle4(b@.subrange(0, 4)) { u32::from_le_bytes([b[0], b[1], b[2], b[3]]) }
#[verifier::external_body] fn crc32_hash_slice(d: &[u8]) -> (r: u32) ensures r == crc32(d@) { unimplemented!() }
#[verifier::external_body] fn bincode_decode_record_slice(d: &[u8]) -> (r: Result<WalRecord>)
    ensures r is Ok <==> decode(d@) is Some, r is Ok ==> r->Ok_0 == decode(d@)->0 { unimplemented!() }
#[verifier::external_body] fn crc32_hash(d: &Vec<u8>) -> (r: u32) ensures r == crc32(d@) { unimplemented!() }
#[verifier::external_body] fn bincode_decode_record(d: &Vec<u8>) -> (r: Result<WalRecord>)
    ensures r is Ok <==> decode(d@) is Some, r is Ok ==> r->Ok_0 == decode(d@)->0 { unimplemented!() }
/// BufReader<File>: the bytes of the file that have not been consumed yet
#[verifier::external_body] pub struct ByteReader { c: std::io::Cursor<Vec<u8>> }
impl ByteReader {
    pub uninterp spec fn rest(&self) -> Seq<u8>;
    #[verifier::external_body] fn read_exact4(&mut self, buf: &mut [u8; 4]) -> (r: std::result::Result<(), IoErr>)
        ensures old(self).rest().len() >= 4 ==> r is Ok && final(buf)@ == old(self).rest().subrange(0, 4) && final(self).rest() == old(self).rest().subrange(4, old(self).rest().len() as int),
                old(self).rest().len() < 4 ==> r is Err && is_eof(r->Err_0),
    { unimplemented!() }
    /// Read::read: ASSUMED std contract - transfers SOME prefix of what is left (possibly fewer bytes than the buffer holds; 0 only at end of file)
    #[verifier::external_body] fn read4(&mut self, buf: &mut [u8; 4]) -> (r: std::result::Result<usize, IoErr>)
        ensures r is Ok, r->Ok_0 <= 4, r->Ok_0 <= old(self).rest().len(), r->Ok_0 == 0 ==> old(self).rest().len() == 0,
                final(buf)@.subrange(0, r->Ok_0 as int) == old(self).rest().subrange(0, r->Ok_0 as int),
                final(self).rest() == old(self).rest().subrange(r->Ok_0 as int, old(self).rest().len() as int),
    { unimplemented!() }
    /// `reader.by_ref().take(n).read_to_end(&mut buf)`: ASSUMED std contract - appends the next min(n, what is left) bytes and consumes them
    #[verifier::external_body] fn read_up_to(&mut self, n: u64, buf: &mut Vec<u8>) -> (r: std::result::Result<usize, IoErr>)
        ensures r is Ok,
                final(buf)@ == old(buf)@ + old(self).rest().subrange(0, if n <= old(self).rest().len() { n as int } else { old(self).rest().len() as int }),
                final(self).rest() == old(self).rest().subrange(if n <= old(self).rest().len() { n as int } else { old(self).rest().len() as int }, old(self).rest().len() as int),
    { unimplemented!() }
    #[verifier::external_body] fn read_exact_vec(&mut self, buf: &mut Vec<u8>) -> (r: std::result::Result<(), IoErr>)
        ensures final(buf)@.len() == old(buf)@.len(),
                old(self).rest().len() >= old(buf)@.len() ==> r is Ok && final(buf)@ == old(self).rest().subrange(0, old(buf)@.len() as int)
                    && final(self).rest() == old(self).rest().subrange(old(buf)@.len() as int, old(self).rest().len() as int),
                old(self).rest().len() < old(buf)@.len() ==> r is Err && is_eof(r->Err_0),
    { unimplemented!() }
}
#[verifier::external_body] pub struct PathArg { p: std::path::PathBuf }
pub uninterp spec fn file_bytes(p: PathArg) -> Seq<u8>;
pub uninterp spec fn file_readable(p: PathArg) -> bool;
#[verifier::external_body] fn fs_open(p: &PathArg) -> (r: Result<ByteReader>) ensures r is Ok <==> file_readable(*p), r is Ok ==> r->Ok_0.rest() == file_bytes(*p) { unimplemented!() }

// ---- SPECIFICATION, taken from the property text -------------------------------------------------------------------------
// "record framing: u32 length | payload | u32 crc32(payload)"
pub enum Frame { End, Bad, Rec(WalRecord, int) }
pub open spec fn frame_at(b: Seq<u8>) -> Frame {
    if b.len() < 4 { Frame::End }                                   // nothing (or a cut length prefix) left
    else {
        let len = unle4(b.subrange(0, 4)) as int;
        if b.len() < 4 + len + 4 { Frame::Bad }                     // torn: payload or checksum cut short
        else {
            let data = b.subrange(4, 4 + len);
            if unle4(b.subrange(4 + len, 8 + len)) != crc32(data) { Frame::Bad }       // fails its checksum
            else if decode(data) is None { Frame::Bad }
            else { Frame::Rec(decode(data)->0, 8 + len) }
        }
    }
}
/// the maximal run of intact frames at the head of the file: "stop replay of a file at the first bad record"
pub open spec fn parse(b: Seq<u8>) -> Seq<WalRecord> decreases b.len()
{
    match frame_at(b) {
        Frame::Rec(r, n) => if 8 <= n <= b.len() { seq![r] + parse(b.subrange(n, b.len() as int)) } else { Seq::empty() },
        _ => Seq::empty(),
    }
}
/// "only records followed by a commit marker are replayed": state = (replayable, pending)
pub open spec fn step(st: (Seq<WalRecord>, Seq<WalRecord>), r: WalRecord, ckpt: bool) -> (Seq<WalRecord>, Seq<WalRecord>) {
    match r {
        WalRecord::TxCommit { .. } => (st.0 + st.1 + seq![r], Seq::empty()),
        WalRecord::TxAbort { .. } => (st.0, Seq::empty()),
        WalRecord::Checkpoint { .. } => if ckpt { (st.0.push(r), Seq::empty()) } else { (st.0, st.1.push(r)) },
        _ => (st.0, st.1.push(r)),
    }
}
pub open spec fn fold(st: (Seq<WalRecord>, Seq<WalRecord>), rs: Seq<WalRecord>, ckpt: bool) -> (Seq<WalRecord>, Seq<WalRecord>) decreases rs.len()
{ if rs.len() == 0 { st } else { fold(step(st, rs[0], ckpt), rs.subrange(1, rs.len() as int), ckpt) } }
pub open spec fn replayable(b: Seq<u8>, ckpt: bool) -> Seq<WalRecord> { fold((Seq::empty(), Seq::empty()), parse(b), ckpt).0 }


// ---- recover_internal environment (ASSUMED: directory listing, file-name parsing, File::open outcomes) ----
#[verifier::external_body] pub struct EpochId { _p: u64 }
@@CheckpointMetadata@@
pub uninterp spec fn seq_of(p: PathArg) -> u64;
pub uninterp spec fn file_missing(p: PathArg) -> bool;
pub uninterp spec fn dir_logs(r: WalRecovery) -> Seq<PathArg>;
#[verifier::external_body] fn fs_open_opt(p: &PathArg) -> (r: Result<Option<ByteReader>>)
    ensures file_readable(*p) ==> (r matches Ok(Some(rd)) && rd.rest() == file_bytes(*p)),
            !file_readable(*p) && file_missing(*p) ==> (r matches Ok(None)),
            !file_readable(*p) && !file_missing(*p) ==> r is Err,
{ unimplemented!() }
/// the records one log file contributes: none if it precedes the checkpoint's log sequence or cannot be opened, else its intact prefix
pub open spec fn file_records(p: PathArg, min: u64) -> Seq<WalRecord> { if seq_of(p) >= min && file_readable(p) { parse(file_bytes(p)) } else { Seq::empty() } }
pub open spec fn all_records(files: Seq<PathArg>, min: u64) -> Seq<WalRecord> decreases files.len()
{ if files.len() == 0 { Seq::empty() } else { all_records(files.drop_last(), min) + file_records(files.last(), min) } }
proof fn lemma_fold_append(st: (Seq<WalRecord>, Seq<WalRecord>), a: Seq<WalRecord>, b: Seq<WalRecord>, ckpt: bool)
    ensures fold(st, a + b, ckpt) == fold(fold(st, a, ckpt), b, ckpt)
    decreases a.len()
{
    if a.len() == 0 { assert(a + b =~= b); }
    else {
        assert((a + b)[0] == a[0]);
        assert((a + b).subrange(1, (a + b).len() as int) =~= a.subrange(1, a.len() as int) + b);
        lemma_fold_append(step(st, a[0], ckpt), a.subrange(1, a.len() as int), b, ckpt);
    }
}

// E1: the only field (dir: PathBuf) is not read by the functions under contract
pub struct WalRecovery { pub dir: PathArg }
impl WalRecovery {
    // ASSUMED callees (file system): the log files of the directory in file-name order; the sequence number in a file name
    #[verifier::external_body] fn get_log_files(&self) -> (r: Result<Vec<PathArg>>) ensures r is Ok ==> r->Ok_0@ == dir_logs(*self) { unimplemented!() }
    #[verifier::external_body] fn sequence_from_path(path: &PathArg) -> (r: Option<u64>) ensures r.unwrap_or(0) == seq_of(*path) { unimplemented!() }

    @@WalRecovery::recover_internal@@

    @@WalRecovery::read_record@@

    @@WalRecovery::recover_file@@
}

// ---- the crash shapes of C06, over the contracts alone ---------------------------------------------------------------------
/// what log() appends for one payload
pub open spec fn frame_bytes(d: Seq<u8>) -> Seq<u8> { le4(d.len() as u32) + d + le4(crc32(d)) }
pub open spec fn frames(ds: Seq<Seq<u8>>) -> Seq<u8> decreases ds.len() { if ds.len() == 0 { Seq::empty() } else { frame_bytes(ds[0]) + frames(ds.subrange(1, ds.len() as int)) } }
pub open spec fn decoded(ds: Seq<Seq<u8>>) -> Seq<WalRecord> decreases ds.len() { if ds.len() == 0 { Seq::empty() } else { seq![decode(ds[0])->0] + decoded(ds.subrange(1, ds.len() as int)) } }
pub open spec fn payloads_ok(ds: Seq<Seq<u8>>) -> bool { forall|i: int| 0 <= i < ds.len() ==> (#[trigger] ds[i]).len() <= u32::MAX && decode(ds[i]) is Some }

proof fn lemma_frame_head(d: Seq<u8>, tail: Seq<u8>, n: int)
    requires d.len() <= u32::MAX, decode(d) is Some, n == d.len()
    ensures frame_at(frame_bytes(d) + tail) == Frame::Rec(decode(d)->0, 8 + n), (frame_bytes(d) + tail).subrange(8 + n, (frame_bytes(d) + tail).len() as int) == tail
{
    axiom_le();
    let b = frame_bytes(d) + tail;
    assert(b.subrange(0, 4) =~= le4(d.len() as u32));
    assert(b.subrange(4, 4 + n) =~= d);
    assert(b.subrange(4 + n, 8 + n) =~= le4(crc32(d)));
    assert(b.subrange(8 + n, b.len() as int) =~= tail);
}
/// CRASH IN THE MIDDLE OF WRITING A RECORD: a log that is k whole frames followed by ANY proper prefix of one more frame parses to exactly the k records
proof fn lemma_torn_tail_is_dropped(ds: Seq<Seq<u8>>, d: Seq<u8>, cut: int)
    requires payloads_ok(ds), d.len() <= u32::MAX, 0 <= cut < frame_bytes(d).len()
    ensures parse(frames(ds) + frame_bytes(d).subrange(0, cut)) == decoded(ds)
    decreases ds.len()
{
    axiom_le();
    let t = frame_bytes(d).subrange(0, cut);
    if ds.len() == 0 {
        assert(frames(ds) + t =~= t);
        if cut >= 4 { assert(t.subrange(0, 4) =~= le4(d.len() as u32)); assert(frame_at(t) == Frame::Bad); }
        assert(parse(t) =~= Seq::empty());
    } else {
        let rest = ds.subrange(1, ds.len() as int);
        assert(payloads_ok(rest)) by { assert forall|i: int| 0 <= i < rest.len() implies (#[trigger] rest[i]).len() <= u32::MAX && decode(rest[i]) is Some by { assert(rest[i] == ds[i + 1]); } }
        lemma_torn_tail_is_dropped(rest, d, cut);
        let tail = frames(rest) + t;
        assert(frames(ds) + t =~= frame_bytes(ds[0]) + tail);
        lemma_frame_head(ds[0], tail, ds[0].len() as int);
        assert(parse(frame_bytes(ds[0]) + tail) =~= seq![decode(ds[0])->0] + parse(tail));
    }
}
/// a log of whole frames parses to all of its records (nothing is lost when there was no crash)
proof fn lemma_whole_log_is_read(ds: Seq<Seq<u8>>)
    requires payloads_ok(ds)
    ensures parse(frames(ds)) == decoded(ds)
    decreases ds.len()
{
    if ds.len() == 0 { assert(frame_at(frames(ds)) == Frame::End); }
    else {
        let rest = ds.subrange(1, ds.len() as int);
        assert(payloads_ok(rest)) by { assert forall|i: int| 0 <= i < rest.len() implies (#[trigger] rest[i]).len() <= u32::MAX && decode(rest[i]) is Some by { assert(rest[i] == ds[i + 1]); } }
        lemma_whole_log_is_read(rest);
        lemma_frame_head(ds[0], frames(rest), ds[0].len() as int);
        assert(parse(frame_bytes(ds[0]) + frames(rest)) =~= seq![decode(ds[0])->0] + parse(frames(rest)));
    }
}
/// A RECORD THAT FAILS ITS CHECKSUM IS NEVER APPLIED - nor is anything behind it: whatever follows k whole frames, if the next frame's stored checksum differs
/// from the checksum of its payload, exactly the k records are read
proof fn lemma_bad_checksum_stops_replay(ds: Seq<Seq<u8>>, bad: Seq<u8>)
    requires payloads_ok(ds), frame_at(bad) == Frame::Bad || frame_at(bad) == Frame::End
    ensures parse(frames(ds) + bad) == decoded(ds)
    decreases ds.len()
{
    if ds.len() == 0 { assert(frames(ds) + bad =~= bad); }
    else {
        let rest = ds.subrange(1, ds.len() as int);
        assert(payloads_ok(rest)) by { assert forall|i: int| 0 <= i < rest.len() implies (#[trigger] rest[i]).len() <= u32::MAX && decode(rest[i]) is Some by { assert(rest[i] == ds[i + 1]); } }
        lemma_bad_checksum_stops_replay(rest, bad);
        let tail = frames(rest) + bad;
        assert(frames(ds) + bad =~= frame_bytes(ds[0]) + tail);
        lemma_frame_head(ds[0], tail, ds[0].len() as int);
        assert(parse(frame_bytes(ds[0]) + tail) =~= seq![decode(ds[0])->0] + parse(tail));
    }
}
/// "uncommitted tail discarded": records after the last commit marker never reach the result
proof fn lemma_uncommitted_tail_discarded(st: (Seq<WalRecord>, Seq<WalRecord>), rs: Seq<WalRecord>, ckpt: bool)
    requires forall|i: int| 0 <= i < rs.len() ==> !(#[trigger] rs[i] is TxCommit) && !(rs[i] is Checkpoint)
    ensures fold(st, rs, ckpt).0 == st.0
    decreases rs.len()
{
    if rs.len() > 0 {
        let rest = rs.subrange(1, rs.len() as int);
        assert forall|i: int| 0 <= i < rest.len() implies !(#[trigger] rest[i] is TxCommit) && !(rest[i] is Checkpoint) by { assert(rest[i] == rs[i + 1]); }
        lemma_uncommitted_tail_discarded(step(st, rs[0], ckpt), rest, ckpt);
    }
}

} // verus!
fn main() {}
'''


def io_rules(f):
    """the file layer, rule by rule (each an exact pattern; a changed shape is a lost anchor or is extracted as it stands and left to the proof)"""
    t = f.text
    arr = set(re.findall(r'let mut (\w+) = \[0u8; 4\];', t))
    vec = set(re.findall(r'let mut (\w+) = vec!\[0u8; \w+\];', t))

    def rd(m):
        n = m.group(1)
        if n in arr:
            return 'reader.read_exact4(&mut %s)' % n
        if n in vec:
            return 'reader.read_exact_vec(&mut %s)' % n
        raise LostAnchor('rule R31: read_exact into `%s`, whose declaration is neither `[0u8; 4]` nor `vec![0u8; n]`' % n)
    f.resub_opt('R31', r'reader\.read_exact\(&mut (\w+)\)', rd)

    def rd_plain(m):
        n = m.group(1)
        if n in arr:
            return 'reader.read4(&mut %s)' % n
        raise LostAnchor('rule R31: `read` into `%s`, whose declaration is not `[0u8; 4]`' % n)
    f.resub_opt('R31', r'reader\.read\(&mut (\w+)\)', rd_plain)
    f.resub_opt('R40', r'e\.kind\(\) == std::io::ErrorKind::UnexpectedEof', 'io_is_unexpected_eof(&e)')
    f.resub_opt('R41', r'Err\(e\.into\(\)\)', 'Err(io_to_error(e))')
    # `X?;` on an io::Result inside a fn returning grafeo's Result: the definition of `?` with `From<io::Error> for Error`
    f.resub_opt('R41', r'(reader\.read\w*\(&mut \w+\))\?', r'(match \1 { Ok(v) => v, Err(e) => return Err(io_to_error(e)) })')
    f.resub_opt('R31', r'reader\.by_ref\(\)\.take\(([^;]+?)\)\.read_to_end\(&mut (\w+)\)\?', r'(match reader.read_up_to(\1, &mut \2) { Ok(v) => v, Err(e) => return Err(io_to_error(e)) })')
    f.resub_opt('X1', r'let mut (\w+) = Vec::new\(\);', r'let mut \1: Vec<u8> = Vec::new();')
    f.resub_opt('R31', r'(?<![\w\.])(\w+)\.split_at\(([^;]+)\);', r'split_at_vec(&\1, \2);')
    f.resub_opt('R31', r'u32::from_le_bytes\(\[\s*(\w+)\[0\],\s*\1\[1\],\s*\1\[2\],\s*\1\[3\],?\s*\]\)', r'le_u32_of_slice(\1)')
    f.resub_opt('R31', r'u32::from_le_bytes\((\w+)\)', r'le_u32_of(\1)')
    f.resub_opt('E1', r'crc32fast::hash\(&(\w+)\)', r'crc32_hash(&\1)')
    f.resub_opt('E1', r'crc32fast::hash\((\w+)\)', r'crc32_hash_slice(\1)')
    if 'crc32fast::' in f.text:
        raise LostAnchor('rule E1 in %s: a use of crc32fast that no helper covers' % f.label)
    f.resub_opt('E1', r'let \((\w+), _\): \(WalRecord, _\) =\s*bincode::serde::decode_from_slice\(&(\w+), bincode::config::standard\(\)\)\s*\.map_err\(\|e\| Error::Serialization\(e\.to_string\(\)\)\)\?;',
                r'let \1: WalRecord = bincode_decode_record(&\2)?;')
    f.resub_opt('E1', r'let \((\w+), _\): \(WalRecord, _\) =\s*bincode::serde::decode_from_slice\((\w+), bincode::config::standard\(\)\)\s*\.map_err\(\|e\| Error::Serialization\(e\.to_string\(\)\)\)\?;',
                r'let \1: WalRecord = bincode_decode_record_slice(\2)?;')
    if 'bincode::' in f.text:
        raise LostAnchor('rule E1 in %s: a use of bincode that no helper covers' % f.label)
    return f


# at the end of a match arm of recover_internal the arm may still be half-way (Checkpoint: clear, then push): the step facts are asserted only where they hold
STEP_AT_ARM_END = ('proof { let rec = parse(b0)[0]; if committed_records@ =~= step((c0, p0), rec, true).0 && current_tx_records@ =~= step((c0, p0), rec, true).1 {'
                   ' assert(parse(b0).subrange(1, parse(b0).len() as int) =~= parse(reader.rest())); } }')


def open_rule(f):
    """E1 + continue-elimination (as R5): `let file = match File::open(&P) { Ok(f) => f, NotFound => continue, Err(e) => return Err(e.into()) };
    let mut reader = BufReader::new(file); REST` -> `match fs_open_opt(&P) { Err(e) => return Err(e), Ok(None) => {}, Ok(Some(mut reader)) => { REST } }`
    (REST = the remainder of the enclosing block, found by indentation as in R5)"""
    pat = re.compile(r'(?m)^([ \t]*)let file = match File::open\(&(\w+)\) \{\n\s*Ok\(f\) => f,\n\s*Err\(e\) if e\.kind\(\) == std::io::ErrorKind::NotFound => continue,\n'
                     r'\s*Err\(e\) => return Err\(e\.into\(\)\),\n\s*\};\n\s*let mut reader = BufReader::new\(file\);\n')
    text = f.text
    m = pat.search(text)
    if not m:
        raise LostAnchor('rule E1(open) in %s: the File::open match has changed shape' % f.label)
    indent = m.group(1)
    lines = text[m.end():].split('\n')
    k = None
    for k2, l in enumerate(lines):
        if l.strip() == '}' and len(l) - len(l.lstrip()) < len(indent):
            k = k2
            break
    if k is None:
        raise LostAnchor('rule E1(open) in %s: enclosing block end not found' % f.label)
    body = '\n'.join(lines[:k])
    tail = '\n'.join(lines[k:])
    f.text = text[:m.start()] + '%smatch fs_open_opt(&%s) { Err(e) => return Err(e), Ok(None) => {}, Ok(Some(mut reader)) => {\n' % (indent, m.group(2)) + body + '\n%s} }\n' % indent + tail
    f._fired('E1', 'File::open match + BufReader::new -> fs_open_opt (continue eliminated)')
    return f


def build(repo):
    u = Unit('walrec', ['C06'], repo, TEMPLATE, edition2024=True)
    for w, why in [('external_body struct NodeId', 'E1: record fields are opaque'), ('external_body struct EdgeId', 'E1'), ('external_body struct TxId', 'E1'), ('external_body struct Value', 'E1'),
                   ('external_body msg()', 'R4: error message strings are opaque'),
                   ('external_body axiom_le', 'std: u32::from_le_bytes(x.to_le_bytes()) == x, 4 bytes'),
                   ('external_body struct IoErr', 'E1: std::io::Error is opaque'), ('external_body io_is_unexpected_eof', 'R40: `e.kind() == ErrorKind::UnexpectedEof`'),
                   ('external_body io_to_error', 'R41: `From<io::Error> for Error`'), ('external_body le_u32_of', 'R31: u32::from_le_bytes on a [u8; 4]'),
                   ('external_body crc32_hash', 'E1: crc32fast::hash is an (unknown) function of the bytes'),
                   ('external_body bincode_decode_record', 'E1: bincode::serde::decode_from_slice(.., standard()) is an (unknown) partial function of the bytes; trailing bytes inside the payload are ignored by it as in the source'),
                   ('external_body struct ByteReader', 'R31: stand-in for BufReader<File>; state = bytes not yet consumed'),
                   ('external_body ByteReader::read_exact4', 'ASSUMED std semantics of Read::read_exact (4-byte buffer): fills and consumes exactly 4 bytes or fails with UnexpectedEof; other I/O errors (EIO) are not modelled'),
                   ('external_body ByteReader::read4', 'ASSUMED std semantics of Read::read (4-byte buffer): may transfer fewer bytes than asked for; 0 only at end of file'),
                   ('external_body ByteReader::read_up_to', 'ASSUMED std semantics of `by_ref().take(n).read_to_end(buf)`'),
                   ('external_body split_at_vec', 'std slice::split_at (precondition = no panic)'), ('external_body le_u32_of_slice', 'R31: from_le_bytes of the first four bytes of a slice (indexing precondition = no panic)'),
                   ('external_body crc32_hash_slice', 'E1: crc32fast::hash on a slice'), ('external_body bincode_decode_record_slice', 'E1: bincode decoder on a slice'),
                   ('external_body ByteReader::read_exact_vec', 'ASSUMED std semantics of Read::read_exact (Vec buffer of the given length)'),
                   ('external_body struct PathArg', 'E1: a path'), ('external_body fs_open', 'E1: File::open + BufReader::new: a reader positioned at the start of the file\'s bytes, or an error')]:
        u.trust(w, why)
    u.assume('usize is 64 bits (`global size_of usize == 8`)')
    u.assume('the file system hands back the bytes that are in the file (no EIO / short reads other than at end of file); which bytes ARE in the file after a crash is NOT modelled - the contracts quantify over every byte string instead')
    u.item(REC, 'enum', 'WalRecord').D1(keep_derive=set())

    f = u.method(SRC, 'WalRecovery', 'read_record').D1().R4().ret('res')
    f.sub('E1', 'reader: &mut BufReader<File>', 'reader: &mut ByteReader')
    io_rules(f)
    f.ensures('never_applies_a_torn_or_corrupt_record', '''match frame_at(old(reader).rest()) {
                Frame::End => !(res matches Ok(Some(_))),           // end of log: nothing is handed out (Ok(None) today)
                Frame::Bad => !(res matches Ok(Some(_))),           // torn / checksum mismatch / undecodable: never handed out (Err today)
                Frame::Rec(r, n) => res matches Ok(Some(rr)) && rr == r && final(reader).rest() == old(reader).rest().subrange(n, old(reader).rest().len() as int),
            }''')
    f.body_start('let ghost b = reader.rest();')
    f.before('let mut checksum_buf', 'proof { assert(data@ =~= b.subrange(4, 4 + len)); }', optional=True)
    f.before('let stored_checksum', 'proof { assert(checksum_buf@ =~= b.subrange(4 + len, 8 + len)); assert(reader.rest() =~= b.subrange(8 + len, b.len() as int)); }', optional=True, nth=0)

    f = u.method(SRC, 'WalRecovery', 'recover_file').D1().D4().ret('res')
    f.sub('X1', 'path: impl AsRef<Path>', 'path: PathArg')
    f.resub('E1', r'let file = File::open\(path\.as_ref\(\)\)\?;\s*let mut reader = BufReader::new\(file\);', 'let mut reader = fs_open(&path)?;')
    f.resub('X1', r'let mut current_tx_records = Vec::new\(\);', 'let mut current_tx_records: Vec<WalRecord> = Vec::new();')
    f.resub('X1', r'let mut committed_records = Vec::new\(\);', 'let mut committed_records: Vec<WalRecord> = Vec::new();')
    f.ensures('exactly_the_committed_records_of_the_intact_prefix', 'res is Ok ==> res->Ok_0@ == replayable(file_bytes(path), false)')
    f.ensures('damage_never_makes_recovery_fail', 'file_readable(path) ==> res is Ok')
    L = f.loop(0).kind('loop')
    L.invariant_except_break('replay_so_far', 'fold((committed_records@, current_tx_records@), parse(reader.rest()), false) == fold((Seq::empty(), Seq::empty()), parse(file_bytes(path)), false)')
    L.ensures('stopped_at_first_bad_frame', 'committed_records@ == replayable(file_bytes(path), false)')
    L.decreases('reader.rest().len()')
    L.body_start('let ghost b0 = reader.rest(); let ghost c0 = committed_records@; let ghost p0 = current_tx_records@;')
    STEP = ('proof { let rec = parse(b0)[0]; assert(parse(b0).subrange(1, parse(b0).len() as int) =~= parse(reader.rest()));'
            ' assert(committed_records@ =~= step((c0, p0), rec, false).0); assert(current_tx_records@ =~= step((c0, p0), rec, false).1); }')
    for a in ('WalRecord::TxCommit { .. } => {', 'WalRecord::TxAbort { .. } => {', '_ => {'):
        f.insert_inline(a, ' proof { assert(parse(b0).len() > 0 && parse(b0)[0] == record); } ', optional=True)
    for a in ('committed_records.push(record);', 'current_tx_records.clear();', 'current_tx_records.push(record);'):
        f.after(a, STEP, optional=True)
    f.resub_opt('X2', r'Ok\(None\) => break,', 'Ok(None) => { proof { assert(parse(b0) =~= Seq::empty()); } break }')
    f.insert_inline('Err(e) => {', ' proof { assert(parse(b0) =~= Seq::empty()); } ', optional=True)

    # ---- recover_internal: what WalRecovery::recover() (GrafeoDB::open) runs ----
    LOG = 'crates/grafeo-adapters/src/storage/wal/log.rs'
    u.trust('external_body struct EpochId', 'E1')
    u.trust('external_body fs_open_opt', 'E1: File::open + BufReader::new with the three outcomes the source distinguishes (opened / NotFound / other error)')
    u.trust('external_body WalRecovery::get_log_files', 'ASSUMED callee: read_dir + sort by file name')
    u.trust('external_body WalRecovery::sequence_from_path', 'ASSUMED callee: parses wal_<seq>.log')
    u.item(LOG, 'struct', 'CheckpointMetadata').D1(keep_derive=set())
    f = u.method(SRC, 'WalRecovery', 'recover_internal').D1().D4().ret('res')
    f.resub('X1', r'let mut current_tx_records = Vec::new\(\);', 'let mut current_tx_records: Vec<WalRecord> = Vec::new();')
    f.resub('X1', r'let mut committed_records = Vec::new\(\);', 'let mut committed_records: Vec<WalRecord> = Vec::new();')
    # R43: Option::map_or by its definition
    f.resub('R43', r'(\w+)\.as_ref\(\)\.map_or\(([^,()]+), \|(\w+)\| ([^()]+?)\);', r'match \1.as_ref() { Some(\3) => \4, None => \2 };')
    open_rule(f)
    f.R5()
    MIN = 'if checkpoint is Some { checkpoint->0.log_sequence } else { 0 }'
    f.ensures('exactly_the_committed_records_of_the_intact_prefixes', 'res is Ok ==> res->Ok_0@ == fold((Seq::empty(), Seq::empty()), all_records(dir_logs(*self), %s), true).0' % MIN)
    EI = '(Seq::<WalRecord>::empty(), Seq::<WalRecord>::empty())'
    L = f.loop(0).kind('for').iter('it')
    L.before('let ghost F = log_files@;')
    L.invariants(('files', 'it.seq() == F && F == dir_logs(*self) && min_sequence == (%s)' % MIN),
                 ('replay_so_far', '(committed_records@, current_tx_records@) == fold(%s, all_records(F.take(it.index@ as int), min_sequence), true)' % EI))
    L.body_start('proof { assert(F.take(it.index@ + 1).drop_last() =~= F.take(it.index@ as int)); assert(F.take(it.index@ + 1).last() == log_file);\n'
                 '    lemma_fold_append(%s, all_records(F.take(it.index@ as int), min_sequence), file_records(log_file, min_sequence), true); }\n'
                 'let ghost st0 = (committed_records@, current_tx_records@);' % EI)
    L.after('proof { assert(F.take(F.len() as int) =~= F); }')
    L = f.loop(1).kind('loop')
    L.invariant_except_break('replay_of_this_file', 'fold((committed_records@, current_tx_records@), parse(reader.rest()), true) == fold(st0, parse(file_bytes(log_file)), true)')
    L.ensures('stopped_at_first_bad_frame', '(committed_records@, current_tx_records@) == fold(st0, parse(file_bytes(log_file)), true)')
    L.decreases('reader.rest().len()')
    L.body_start('let ghost b0 = reader.rest(); let ghost c0 = committed_records@; let ghost p0 = current_tx_records@;')
    STEP = ('proof { let rec = parse(b0)[0]; assert(parse(b0).subrange(1, parse(b0).len() as int) =~= parse(reader.rest()));'
            ' assert(committed_records@ =~= step((c0, p0), rec, true).0); assert(current_tx_records@ =~= step((c0, p0), rec, true).1); }')
    f.insert_inline('Ok(Some(record)) => {', ' proof { assert(parse(b0).len() > 0 && parse(b0)[0] == record); } ', optional=True)
    for a in ('committed_records.push(record);', 'current_tx_records.clear();', 'current_tx_records.push(record);'):
        for nth in (0, 1):
            f.after(a, STEP_AT_ARM_END, nth=nth, optional=True)
    f.resub_opt('X2', r'Ok\(None\) => break,', 'Ok(None) => { proof { assert(parse(b0) =~= Seq::empty()); } break },')
    f.insert_inline('Err(e) => {', ' proof { assert(parse(b0) =~= Seq::empty()); } ', optional=True)
    u.not_covered += ['WalManager::log / rotate / checkpoint / sync (File + Mutex + durability modes): WHICH bytes are on disk after a crash is not modelled', 'recover_internal directory walk (read_dir, file names)',
                      'GrafeoDB::open / apply_wal_records (store side)', 'ensure_active_log appends after whatever bytes the file holds: by the lemmas above, records appended behind a torn frame are never read back - not decidable here (file I/O)',
                      'async_log.rs, flusher.rs (threads)']
    return u
