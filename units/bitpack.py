"""Unit BITPACK (C15): BitPackedInts::{pack_with_bits, unpack, get} against an abstract view (sequence of bit fields)."""
from vlib import Unit

SRC = 'crates/grafeo-core/src/storage/bitpack.rs'

TEMPLATE = r'''
use vstd::prelude::*;
verus! {

pub open spec fn mask_of(bits: u64) -> u64 { if bits >= 64 { u64::MAX } else { ((1u64 << bits) - 1) as u64 } }
/// Bits [off, off+bits) of word w.
pub open spec fn field(w: u64, off: u64, bits: u64) -> u64 { (w >> off) & mask_of(bits) }

@@BitPackedInts@@

// rule R16: the fold step of Iterator::max over u64
fn opt_max_u64(a: Option<u64>, b: u64) -> (r: Option<u64>)
    ensures r is Some, (r->0) >= b, a is Some ==> (r->0) >= (a->0), r == Some(b) || r == a,
{
    match a { None => Some(b), Some(cur) => if b > cur { Some(b) } else { Some(cur) } }
}

proof fn lemma_set_same(w: u64, v: u64, off: u64, bits: u64)
    requires 1 <= bits <= 64, off + bits <= 64, v <= mask_of(bits), field(w, off, bits) == 0,
    ensures field(w | ((v & mask_of(bits)) << off), off, bits) == v,
{
    assert(1 <= bits <= 64 && off + bits <= 64 && v <= (if bits >= 64 { u64::MAX } else { ((1u64 << bits) - 1) as u64 })
        && ((w >> off) & (if bits >= 64 { u64::MAX } else { ((1u64 << bits) - 1) as u64 })) == 0
        ==> (((w | ((v & (if bits >= 64 { u64::MAX } else { ((1u64 << bits) - 1) as u64 })) << off)) >> off) & (if bits >= 64 { u64::MAX } else { ((1u64 << bits) - 1) as u64 })) == v) by (bit_vector);
}

proof fn lemma_set_other(w: u64, v: u64, off: u64, off2: u64, bits: u64)
    requires 1 <= bits <= 64, off + bits <= 64, off2 + bits <= 64, (off2 + bits <= off || off + bits <= off2), v <= mask_of(bits),
    ensures field(w | ((v & mask_of(bits)) << off), off2, bits) == field(w, off2, bits),
{
    assert(1 <= bits <= 64 && off + bits <= 64 && off2 + bits <= 64 && (off2 + bits <= off || off + bits <= off2) && v <= (if bits >= 64 { u64::MAX } else { ((1u64 << bits) - 1) as u64 })
        ==> (((w | ((v & (if bits >= 64 { u64::MAX } else { ((1u64 << bits) - 1) as u64 })) << off)) >> off2) & (if bits >= 64 { u64::MAX } else { ((1u64 << bits) - 1) as u64 }))
            == ((w >> off2) & (if bits >= 64 { u64::MAX } else { ((1u64 << bits) - 1) as u64 }))) by (bit_vector);
}

proof fn lemma_mask_mono(m: u64, bits: u64, v: u64)
    requires m <= mask_of(bits), v <= m
    ensures v <= mask_of(bits)
{ }

proof fn lemma_idx(i: int, bits: int, len: int, count: int)
    requires 1 <= bits <= 64, 0 <= i < count, len * (64int / bits) >= count,
    ensures 0 <= i / (64int / bits) < len, 0 <= (i % (64int / bits)) * bits, (i % (64int / bits)) * bits + bits <= 64, 64int / bits >= 1,
{
    let vpw = 64int / bits;
    assert(vpw >= 1 && vpw * bits <= 64) by (nonlinear_arith) requires 1 <= bits <= 64, vpw == 64int / bits;
    assert(i / vpw < len) by (nonlinear_arith) requires vpw >= 1, 0 <= i < count, len * vpw >= count;
    assert(0 <= i / vpw) by (nonlinear_arith) requires vpw >= 1, 0 <= i;
    let r = i % vpw;
    assert(0 <= r < vpw) by (nonlinear_arith) requires vpw >= 1, r == i % vpw;
    assert(r * bits + bits <= 64 && r * bits >= 0) by (nonlinear_arith) requires 0 <= r < vpw, vpw * bits <= 64, bits >= 1;
}

/// Abstract content of a packed block: element i is the bit field at word i / vpw, offset (i % vpw) * bits.
pub open spec fn elem_of(data: Seq<u64>, bits: u8, i: int) -> u64 {
    if bits == 0 { 0 } else {
        field(data[i / (64int / (bits as int))], ((i % (64int / (bits as int))) * (bits as int)) as u64, bits as u64)
    }
}
pub open spec fn view_of(data: Seq<u64>, bits: u8, count: usize) -> Seq<u64> { Seq::new(count as nat, |i: int| elem_of(data, bits, i)) }

impl BitPackedInts {
    pub open spec fn vpw(&self) -> int { 64int / (self.bits_per_value as int) }
    /// Representation invariant: width at most 64 and enough words for `count` fields.
    pub open spec fn wf(&self) -> bool {
        self.bits_per_value <= 64 && (self.bits_per_value > 0 ==> self.data@.len() * self.vpw() >= self.count)
    }
    pub open spec fn elem(&self, i: int) -> u64 { elem_of(self.data@, self.bits_per_value, i) }
    pub open spec fn view(&self) -> Seq<u64> { view_of(self.data@, self.bits_per_value, self.count) }

    @@BitPackedInts::bits_needed@@

    @@BitPackedInts::pack@@

    @@BitPackedInts::pack_with_bits@@

    @@BitPackedInts::unpack@@

    @@BitPackedInts::get@@

    @@BitPackedInts::len@@

    @@BitPackedInts::is_empty@@

    @@BitPackedInts::bits_per_value@@
}

@@DeltaBitPacked@@

// ---- delta + bit-packing: the same wrapping prefix sums as DeltaEncoding ------------------------------
pub open spec fn wadd(a: u64, b: u64) -> u64 { ((a as int + b as int) % 0x1_0000_0000_0000_0000int) as u64 }
pub open spec fn prefix(base: u64, ds: Seq<u64>) -> Seq<u64>
    decreases ds.len()
{
    if ds.len() == 0 { seq![base] }
    else { prefix(base, ds.drop_last()).push(wadd(prefix(base, ds.drop_last()).last(), ds.last())) }
}
proof fn lemma_prefix_len(base: u64, ds: Seq<u64>)
    ensures prefix(base, ds).len() == ds.len() + 1
    decreases ds.len()
{ if ds.len() > 0 { lemma_prefix_len(base, ds.drop_last()); } }
pub open spec fn diffs(v: Seq<u64>) -> Seq<u64> { Seq::new((v.len() - 1) as nat, |i: int| (v[i + 1] - v[i]) as u64) }
pub open spec fn sorted(v: Seq<u64>) -> bool { forall|i: int, j: int| 0 <= i <= j < v.len() ==> v[i] <= v[j] }
proof fn lemma_roundtrip(v: Seq<u64>)
    requires v.len() >= 1, sorted(v),
    ensures prefix(v[0], diffs(v)) == v,
    decreases v.len()
{
    if v.len() == 1 {
        assert(diffs(v) =~= Seq::<u64>::empty());
        assert(prefix(v[0], diffs(v)) =~= v);
    } else {
        let w = v.drop_last();
        lemma_roundtrip(w);
        assert(diffs(v).drop_last() =~= diffs(w));
        lemma_prefix_len(v[0], diffs(w));
        let n = v.len() as int;
        assert(diffs(v).last() == (v[n - 1] - v[n - 2]) as u64);
        assert(wadd(v[n - 2], (v[n - 1] - v[n - 2]) as u64) == v[n - 1]);
        assert(prefix(v[0], diffs(v)) =~= v);
    }
}

impl DeltaBitPacked {
    pub open spec fn wf(&self) -> bool { self.deltas.wf() && self.deltas.count < usize::MAX }
    /// the "empty" encoding (the fix of 507baaa: a single 0 has width 1, the empty sequence width 0)
    pub open spec fn empty_enc(&self) -> bool { self.deltas.count == 0 && self.base == 0 && self.deltas.bits_per_value == 0 }
    pub open spec fn view(&self) -> Seq<u64> { if self.empty_enc() { Seq::empty() } else { prefix(self.base, self.deltas.view()) } }

    @@DeltaBitPacked::encode@@

    @@DeltaBitPacked::decode@@

    @@DeltaBitPacked::len@@

    @@DeltaBitPacked::is_empty@@
}

// C15: delta + bit-packing is lossless on sorted input of every length (0 and 1 included), and len() is the length
fn roundtrip_delta_bitpacked(values: &[u64]) -> (out: Vec<u64>)
    requires sorted(values@), values@.len() + 64 <= usize::MAX,
    ensures out@ == values@,
{
    let e = DeltaBitPacked::encode(values);
    let n = e.len();
    proof { lemma_prefix_len(e.base, e.deltas.view()); }
    assert(n == values@.len());
    e.decode()
}

// C15 with the automatic width: unpack(pack(v)) == v and get(i) == v[i], for every length.
fn roundtrip_auto_width(values: &[u64]) -> (out: Vec<u64>)
    requires values@.len() + 64 <= usize::MAX,
    ensures out@ == values@
{
    let p = BitPackedInts::pack(values);
    p.unpack()
}

// C15 at the level of contracts only: unpack(pack_with_bits(v, w)) == v and get(i) == v[i].
fn roundtrip_witness(values: &[u64], w: u8) -> (out: Vec<u64>)
    requires w <= 64, forall|i: int| 0 <= i < values@.len() ==> values@[i] <= mask_of(w as u64),
        w == 0 ==> forall|i: int| 0 <= i < values@.len() ==> values@[i] == 0,
        values@.len() + 64 <= usize::MAX,
    ensures out@ == values@
{
    let p = BitPackedInts::pack_with_bits(values, w);
    p.unpack()
}

fn random_access_witness(values: &[u64], w: u8, i: usize) -> (out: Option<u64>)
    requires w <= 64, forall|i: int| 0 <= i < values@.len() ==> values@[i] <= mask_of(w as u64),
        w == 0 ==> forall|i: int| 0 <= i < values@.len() ==> values@[i] == 0,
        values@.len() + 64 <= usize::MAX,
    ensures i < values@.len() ==> out == Some(values@[i as int]), i >= values@.len() ==> out is None,
{
    let p = BitPackedInts::pack_with_bits(values, w);
    p.get(i)
}

} // verus!
fn main() {}
'''


def build(repo):
    u = Unit('bitpack', ['C15'], repo, TEMPLATE)
    u.item(SRC, 'struct', 'BitPackedInts').D1(keep_derive=set()).V1()


    # bits_needed: leading_zeros bit trick; contract proved for all 2^64 inputs by Kani (harness bits_needed_tight), assumed here
    f = u.method(SRC, 'BitPackedInts', 'bits_needed').D1().ret('r')
    f.sig_attr('#[verifier::external_body]')
    f.ensures('fits', '1 <= r <= 64 && value <= mask_of(r as u64)')
    u.trust('external_body bits_needed', 'leading_zeros bit trick: `1 <= r <= 64 && value < 2^r` is proved for all 2^64 inputs by Kani unit codec_kani (bits_needed_tight), not by Verus')

    f = u.method(SRC, 'BitPackedInts', 'pack').D1().R16('max_value', 'u64').ret('r')
    f.requires('len', 'values@.len() + 64 <= usize::MAX')
    f.ensures('wf', 'r.wf()')
    f.ensures('view', 'r.view() == values@')
    f.ensures('count', 'r.count == values@.len()')
    f.ensures('empty_has_width_zero', 'values@.len() == 0 ==> r.bits_per_value == 0')
    L = f.loop(0).kind('for')
    L.invariants(('some', 'i__ > 0 ==> max_value__max is Some'), ('max_so_far', 'forall|k: int| 0 <= k < i__ ==> values@[k] <= max_value__max.unwrap()'))
    f.before('let bits', 'proof { assert forall|k: int| 0 <= k < values@.len() implies values@[k] <= max_value by { } }')
    f.before_tail('proof { assert forall|k: int| 0 <= k < values@.len() implies values@[k] <= mask_of(bits as u64) by { assert(values@[k] <= max_value); lemma_mask_mono(max_value, bits as u64, values@[k]); } }')

    # ---- pack_with_bits -----------------------------------------------------------------------
    f = u.method(SRC, 'BitPackedInts', 'pack_with_bits').D1()
    f.sub('X1', 'debug_assert!(values.iter().all(|&v| v == 0));', 'assert(forall|k: int| 0 <= k < values@.len() ==> values@[k] == 0);')
    f.D2().R3().ret('r')
    f.requires('width', 'bits_per_value <= 64')
    f.requires('fits', 'forall|i: int| 0 <= i < values@.len() ==> values@[i] <= mask_of(bits_per_value as u64)')
    f.requires('zero_width', 'bits_per_value == 0 ==> forall|i: int| 0 <= i < values@.len() ==> values@[i] == 0')
    f.requires('len', 'values@.len() + 64 <= usize::MAX')
    f.ensures('wf', 'r.wf()')
    f.ensures('view', 'r.view() == values@')
    f.ensures('width', 'r.bits_per_value == bits_per_value')
    f.ensures('count', 'r.count == values@.len()')
    f.before('let num_words', 'proof { assert(64int / (bits as int) >= 1) by (nonlinear_arith) requires 1 <= bits as int <= 64; }')
    f.before('let mask', 'proof { let b = bits as u64; assert(b < 64 ==> (1u64 << b) >= 1) by (bit_vector); }')
    L = f.loop(0).kind('for')
    L.before('''proof {
    assert(num_words * values_per_word >= values@.len()) by (nonlinear_arith)
        requires values_per_word >= 1, num_words == (values@.len() + values_per_word - 1) / (values_per_word as int);
    assert forall|j: int| 0 <= j < values@.len() implies #[trigger] field(data@[j / (values_per_word as int)], ((j % (values_per_word as int)) * (bits as int)) as u64, bits as u64) == 0 by {
        lemma_idx(j, bits as int, num_words as int, values@.len() as int);
        let off = ((j % (values_per_word as int)) * (bits as int)) as u64;
        let b = bits as u64;
        assert(((0u64 >> off) & mask_of(b)) == 0) by (bit_vector);
    }
}''')
    L.invariants(
        ('params', '1 <= bits <= 64 && bits == bits_per_value && values_per_word == 64usize / bits && mask == mask_of(bits as u64)'),
        ('words', 'data@.len() == num_words && num_words * values_per_word >= values@.len()'),
        ('fits', 'forall|k: int| 0 <= k < values@.len() ==> values@[k] <= mask_of(bits as u64)'),
        ('written', 'forall|j: int| 0 <= j < i ==> #[trigger] field(data@[j / (values_per_word as int)], ((j % (values_per_word as int)) * (bits as int)) as u64, bits as u64) == values@[j]'),
        ('untouched', 'forall|j: int| i <= j < values@.len() ==> #[trigger] field(data@[j / (values_per_word as int)], ((j % (values_per_word as int)) * (bits as int)) as u64, bits as u64) == 0'),
    )
    L.body_start('proof { lemma_idx(i as int, bits as int, num_words as int, values@.len() as int); }')
    f.before('data[word_idx]', '''let ghost old_data = data@;
proof {
    let b = bits as u64; let off = bit_offset as u64; let v = value & mask;
    assert(off + b <= 64 && v <= mask_of(b) ==> (v << off) >> off == v) by (bit_vector);
}''')
    L.body_end('''proof {
    let vpw = values_per_word as int; let b = bits as int;
    assert forall|j: int| 0 <= j < values@.len() implies
        #[trigger] field(data@[j / vpw], ((j % vpw) * b) as u64, bits as u64)
          == (if j == i { values@[j] } else { field(old_data[j / vpw], ((j % vpw) * b) as u64, bits as u64) }) by {
        lemma_idx(j, b, num_words as int, values@.len() as int);
        if j / vpw == word_idx as int {
            if j == i as int {
                lemma_set_same(old_data[word_idx as int], value, bit_offset as u64, bits as u64);
            } else {
                let off2 = ((j % vpw) * b) as u64;
                assert(j % vpw != (i as int) % vpw) by (nonlinear_arith)
                    requires j / vpw == (i as int) / vpw, j != i as int, vpw >= 1;
                let a = j % vpw; let c = (i as int) % vpw;
                assert(a * b + b <= c * b || c * b + b <= a * b) by (nonlinear_arith)
                    requires a != c, b >= 1, 0 <= a, 0 <= c;
                assert(off2 as int == a * b);
                assert(bit_offset as int == c * b);
                lemma_set_other(old_data[word_idx as int], value, bit_offset as u64, off2, bits as u64);
            }
        }
    }
}''')
    L.after('proof { assert(view_of(data@, bits_per_value, values.len()) =~= values@); }')

    # ---- unpack -------------------------------------------------------------------------------
    f = u.method(SRC, 'BitPackedInts', 'unpack').D1().ret('r')
    f.requires('wf', 'self.wf()')
    f.ensures('view', 'r@ == self.view()')
    f.before('let mask', 'proof { let b = bits as u64; assert(b < 64 ==> (1u64 << b) >= 1) by (bit_vector); }')
    f.before('return vec![0u64; self.count]', 'proof { assert(Seq::new(self.count as nat, |i: int| 0u64) =~= self.view()); }')
    L = f.loop(0).kind('for')
    L.invariants(
        ('params', 'self.wf() && bits == self.bits_per_value && 1 <= bits <= 64 && values_per_word == 64usize / bits && mask == mask_of(bits as u64)'),
        ('len', 'result@.len() == i'),
        ('prefix', 'forall|j: int| 0 <= j < i ==> #[trigger] result@[j] == self.elem(j)'),
    )
    L.body_start('proof { lemma_idx(i as int, bits as int, self.data@.len() as int, self.count as int); }')
    L.after('proof { assert(result@ =~= self.view()); }')

    # ---- get ----------------------------------------------------------------------------------
    f = u.method(SRC, 'BitPackedInts', 'get').D1().ret('r')
    f.requires('wf', 'self.wf()')
    f.ensures('in_range', 'index < self.count ==> r == Some(self.view()[index as int])')
    f.ensures('out_of_range', 'index >= self.count ==> r is None')
    f.before('let word_idx', 'proof { lemma_idx(index as int, bits as int, self.data@.len() as int, self.count as int); }')
    f.before('let mask', 'proof { let b = bits as u64; assert(b < 64 ==> (1u64 << b) >= 1) by (bit_vector); }')

    f = u.method(SRC, 'BitPackedInts', 'len').D1().ret('r')
    f.ensures('count', 'r == self.count')
    f = u.method(SRC, 'BitPackedInts', 'is_empty').D1().ret('r')
    f.ensures('count', 'r == (self.count == 0)')


    f = u.method(SRC, 'BitPackedInts', 'bits_per_value').D1().ret('r')
    f.ensures('field', 'r == self.bits_per_value')

    # ---- DeltaBitPacked ---------------------------------------------------------------------------------
    u.item(SRC, 'struct', 'DeltaBitPacked').D1(keep_derive=set()).V1()
    f = u.method(SRC, 'DeltaBitPacked', 'encode').D1().R15('delta_values').ret('r')
    f.requires('sorted', 'sorted(values@)')
    f.requires('len', 'values@.len() + 64 <= usize::MAX')
    f.ensures('wf', 'r.wf()')
    f.ensures('view', 'r.view() == values@')
    L = f.loop(0).kind('for')
    L.invariants(('sorted', 'sorted(values@) && values@.len() > 0'),
                 ('prefix', 'delta_values@.len() == i__ - 1 && forall|k: int| 0 <= k < i__ - 1 ==> #[trigger] delta_values@[k] == (values@[k + 1] - values@[k]) as u64'))
    L.after('proof { assert(delta_values@ =~= diffs(values@)); lemma_roundtrip(values@); }')
    f.before('return Self', 'proof { assert(values@ =~= Seq::<u64>::empty()); }')
    f.before_tail('proof { assert(deltas.view() == diffs(values@)); assert(deltas.view().len() == deltas.count); lemma_prefix_len(base, deltas.view()); }')

    f = u.method(SRC, 'DeltaBitPacked', 'decode').D1().ret('r')
    f.requires('wf', 'self.wf()')
    f.ensures('view', 'r@ == self.view()')
    L = f.loop(0).kind('for').iter('it')
    L.before('let ghost ds = delta_values@;\nproof { assert(ds.take(0) =~= Seq::<u64>::empty()); }')
    L.invariants(('prefix', 'result@ == prefix(self.base, ds.take(it.index@ as int))'),
                 ('current', 'current == result@.last() && result@.len() >= 1'),
                 ('iter', 'it.seq() == ds'))
    L.body_end('''proof {
    let t = ds.take(it.index@ + 1);
    assert(t.drop_last() =~= ds.take(it.index@ as int));
    assert(t.last() == delta);
}''')
    L.after('proof { assert(ds.take(ds.len() as int) =~= ds); }')

    f = u.method(SRC, 'DeltaBitPacked', 'len').D1().ret('r')
    f.requires('wf', 'self.wf()')
    f.ensures('len', 'r == (if self.empty_enc() { 0int } else { self.deltas.count + 1 })')
    f = u.method(SRC, 'DeltaBitPacked', 'is_empty').D1().ret('r')
    f.ensures('empty', 'r == self.empty_enc()')
    u.not_covered += ['BitPackedInts::{to_bytes, from_bytes} (Kani bounded), compression_ratio (f64)', 'DeltaBitPacked::{to_bytes, from_bytes, compression_ratio}']
    return u
