"""Kani unit ADJACENCY (C14, BOUNDED): real AdjacencyChunk::compress / CompressedAdjacencyChunk::iter round trip and AdjacencyList add/compact/delete/iter."""
import os
from klib import KaniUnit

REL = 'crates/grafeo-core/src/index/adjacency.rs'


def build(repo):
    u = KaniUnit('adjacency', ['C14', 'C15'], 'grafeo-core', cargo_args=['--no-default-features'], copy_crates=['grafeo-common', 'grafeo-core'])
    u.module = 'index::adjacency::verif_adjacency'
    u.append(REL, open(os.path.join(os.path.dirname(os.path.dirname(os.path.abspath(__file__))), 'kani', 'adjacency.rs')).read())
    for n in (1, 2, 3):
        u.harness('chunk_compress_roundtrip_len%d' % n, 'adjacency::AdjacencyChunk::compress/CompressedAdjacencyChunk::iter::same_multiset[len=%d]' % n, kind='bounded',
                  bound='chunk of exactly %d entries, all u64 payloads' % n, timeout=1200, props=['C15', 'C14'], tier='quick' if n < 3 else 'thorough')
    for n, cap in ((2, 1), (3, 2)):
        u.harness('list_ops_n%d_cap%d' % (n, cap), 'adjacency::AdjacencyList::iter/degree::exactly_the_live_entries[edges=%d,capacity=%d]' % (n, cap), kind='bounded',
                  bound='%d edges, chunk capacity %d, compaction after any add, at most one deletion' % (n, cap), timeout=1500, props=['C14'], tier='quick' if n == 2 else 'thorough')
    u.functions = [('AdjacencyChunk::{new, push, len, is_full, iter, compress}, CompressedAdjacencyChunk::{len, iter}, AdjacencyList::{new, add_edge, mark_deleted, compact, maybe_compress_to_cold, iter, degree}', REL)]
    u.assumptions = ['BOUNDED: see each harness; with <= 4 edges and COLD_COMPRESSION_THRESHOLD = 4 the hot -> cold migration inside AdjacencyList is not reached (the chunk round trip harness covers compress/iter on their own)']
    u.not_covered = ['ChunkedAdjacency (RwLock<FxHashMap>: parking_lot is outside Kani), edge / deleted counters, freeze_all, larger lists']
    return u
