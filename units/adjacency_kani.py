"""Kani unit ADJACENCY (C15, BOUNDED): real AdjacencyChunk::compress / CompressedAdjacencyChunk::iter round trip (compressed adjacency chunks)."""
import os
from klib import KaniUnit

REL = 'crates/grafeo-core/src/index/adjacency.rs'


def build(repo):
    u = KaniUnit('adjacency', ['C15'], 'grafeo-core', cargo_args=['--no-default-features'], copy_crates=['grafeo-common', 'grafeo-core'])
    u.module = 'index::adjacency::verif_adjacency'
    u.append(REL, open(os.path.join(os.path.dirname(os.path.dirname(os.path.abspath(__file__))), 'kani', 'adjacency.rs')).read())
    for n in (1, 2, 3):
        u.harness('chunk_compress_roundtrip_len%d' % n, 'adjacency::AdjacencyChunk::compress/CompressedAdjacencyChunk::iter::same_multiset[len=%d]' % n, kind='bounded',
                  bound='chunk of exactly %d entries, all u64 payloads' % n, timeout=1200, props=['C15'], tier='quick' if n < 3 else 'thorough')
    u.functions = [('AdjacencyChunk::{new, push, compress}, CompressedAdjacencyChunk::{len, iter}', REL)]
    u.assumptions = ['BOUNDED: chunks of exactly 1, 2 (quick) and 3 (thorough) entries; payloads are arbitrary u64']
    u.not_covered = ['AdjacencyList::{add_edge, compact, mark_deleted, iter} (CBMC > 25 min at 2 edges), ChunkedAdjacency (RwLock<FxHashMap>: parking_lot is outside Kani), longer chunks']
    return u
