"""Kani unit ADJACENCY (C14, BOUNDED): real AdjacencyChunk::compress / CompressedAdjacencyChunk::iter round trip and AdjacencyList add/compact/delete/iter."""
import os
from klib import KaniUnit

REL = 'crates/grafeo-core/src/index/adjacency.rs'


def build(repo):
    u = KaniUnit('adjacency', ['C14'], 'grafeo-core', cargo_args=['--no-default-features'], copy_crates=['grafeo-common', 'grafeo-core'])
    u.module = 'index::adjacency::verif_adjacency'
    u.append(REL, open(os.path.join(os.path.dirname(os.path.dirname(os.path.abspath(__file__))), 'kani', 'adjacency.rs')).read())
    u.harness('chunk_compress_roundtrip', 'adjacency::AdjacencyChunk::compress/CompressedAdjacencyChunk::iter::same_multiset[len<=3]', kind='bounded', bound='chunk of <= 3 entries, all u64 payloads', timeout=1200)
    u.harness('list_add_compact_delete_iter', 'adjacency::AdjacencyList::iter/degree::exactly_the_live_entries[edges<=4,capacity in {1,2}]', kind='bounded',
              bound='<= 4 edges, chunk capacity 1 or 2, compaction after any add, at most one deletion', timeout=1800)
    u.functions = [('AdjacencyChunk::{new, push, len, is_full, iter, compress}, CompressedAdjacencyChunk::{len, iter}, AdjacencyList::{new, add_edge, mark_deleted, compact, maybe_compress_to_cold, iter, degree}', REL)]
    u.assumptions = ['BOUNDED: see each harness; with <= 4 edges and COLD_COMPRESSION_THRESHOLD = 4 the hot -> cold migration inside AdjacencyList is not reached (the chunk round trip harness covers compress/iter on their own)']
    u.not_covered = ['ChunkedAdjacency (RwLock<FxHashMap>: parking_lot is outside Kani), edge / deleted counters, freeze_all, larger lists']
    return u
