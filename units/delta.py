"""Unit DELTA (C15): DeltaEncoding::{decode, decode_signed, len, is_empty} + round-trip lemmas over the encoder's (Kani-checked) contract."""
from vlib import Unit

SRC = 'crates/grafeo-core/src/storage/delta.rs'

TEMPLATE = r'''
use vstd::prelude::*;
verus! {

@@DeltaEncoding@@

// ---- zig-zag: bodies are bit tricks on signed shifts; proved bijective by the Kani unit `codec_kani`
//      (harnesses zigzag_decode_encode / zigzag_encode_decode, all 2^64 inputs).  Here: assumed contract.
pub uninterp spec fn zz(v: i64) -> u64;
pub uninterp spec fn unzz(u: u64) -> i64;

#[verifier::external_body]
pub proof fn axiom_zigzag_inverse()
    ensures forall|v: i64| unzz(#[trigger] zz(v)) == v,
{ }

@@zigzag_decode@@

@@zigzag_encode@@

// ---- specification --------------------------------------------------------------------------
pub open spec fn wadd(a: u64, b: u64) -> u64 { ((a as int + b as int) % 0x1_0000_0000_0000_0000int) as u64 }
pub open spec fn swrap(x: int) -> i64 {
    if x > i64::MAX { (x - 0x1_0000_0000_0000_0000int) as i64 } else if x < i64::MIN { (x + 0x1_0000_0000_0000_0000int) as i64 } else { x as i64 }
}
pub open spec fn swadd(a: i64, b: i64) -> i64 { swrap(a as int + b as int) }
pub open spec fn swsub(a: i64, b: i64) -> i64 { swrap(a as int - b as int) }

/// base, base+d0, base+d0+d1, ...   (wrapping, as the decoder computes)
pub open spec fn prefix(base: u64, ds: Seq<u64>) -> Seq<u64>
    decreases ds.len()
{
    if ds.len() == 0 { seq![base] }
    else { prefix(base, ds.drop_last()).push(wadd(prefix(base, ds.drop_last()).last(), ds.last())) }
}
pub open spec fn sprefix(base: i64, ds: Seq<u64>) -> Seq<i64>
    decreases ds.len()
{
    if ds.len() == 0 { seq![base] }
    else { sprefix(base, ds.drop_last()).push(swadd(sprefix(base, ds.drop_last()).last(), unzz(ds.last()))) }
}
proof fn lemma_prefix_len(base: u64, ds: Seq<u64>)
    ensures prefix(base, ds).len() == ds.len() + 1
    decreases ds.len()
{ if ds.len() > 0 { lemma_prefix_len(base, ds.drop_last()); } }
proof fn lemma_sprefix_len(base: i64, ds: Seq<u64>)
    ensures sprefix(base, ds).len() == ds.len() + 1
    decreases ds.len()
{ if ds.len() > 0 { lemma_sprefix_len(base, ds.drop_last()); } }

/// What `encode` produces for a sorted input (its contract; discharged for the real encoder by Kani, bounded).
pub open spec fn diffs(v: Seq<u64>) -> Seq<u64> { Seq::new((v.len() - 1) as nat, |i: int| (v[i + 1] - v[i]) as u64) }
pub open spec fn sorted(v: Seq<u64>) -> bool { forall|i: int, j: int| 0 <= i <= j < v.len() ==> v[i] <= v[j] }
pub open spec fn sdiffs(v: Seq<i64>) -> Seq<u64> { Seq::new((v.len() - 1) as nat, |i: int| zz(swsub(v[i + 1], v[i]))) }

/// Round trip (unsigned): decoding the differences of a sorted sequence gives the sequence back.
proof fn lemma_roundtrip(v: Seq<u64>)
    requires v.len() >= 1, sorted(v),
    ensures prefix(v[0], diffs(v)) == v,
    decreases v.len()
{
    if v.len() == 1 {
        assert(diffs(v) =~= Seq::<u64>::empty());
        assert(prefix(v[0], diffs(v)) =~= v);
    } else {
        let w = v.drop_last();
        lemma_roundtrip(w);
        assert(diffs(v).drop_last() =~= diffs(w));
        lemma_prefix_len(v[0], diffs(w));
        let n = v.len() as int;
        assert(diffs(v).last() == (v[n - 1] - v[n - 2]) as u64);
        assert(wadd(v[n - 2], (v[n - 1] - v[n - 2]) as u64) == v[n - 1]);
        assert(prefix(v[0], diffs(v)) =~= v);
    }
}

proof fn lemma_swadd_swsub(a: i64, b: i64)
    ensures swadd(a, swsub(b, a)) == b
{ }

/// Round trip (signed): for EVERY i64 sequence, thanks to wrapping differences.
proof fn lemma_roundtrip_signed(v: Seq<i64>)
    requires v.len() >= 1,
    ensures sprefix(v[0], sdiffs(v)) == v,
    decreases v.len()
{
    axiom_zigzag_inverse();
    if v.len() == 1 {
        assert(sdiffs(v) =~= Seq::<u64>::empty());
        assert(sprefix(v[0], sdiffs(v)) =~= v);
    } else {
        let w = v.drop_last();
        lemma_roundtrip_signed(w);
        assert(sdiffs(v).drop_last() =~= sdiffs(w));
        lemma_sprefix_len(v[0], sdiffs(w));
        let n = v.len() as int;
        lemma_swadd_swsub(v[n - 2], v[n - 1]);
        assert(sprefix(v[0], sdiffs(v)) =~= v);
    }
}

impl DeltaEncoding {
    /// Representation invariant established by both encoders.
    pub open spec fn wf(&self) -> bool { self.count == 0 || self.count == self.deltas@.len() + 1 }

    @@DeltaEncoding::encode@@

    @@DeltaEncoding::encode_signed@@

    @@DeltaEncoding::decode@@

    @@DeltaEncoding::decode_signed@@

    @@DeltaEncoding::len@@

    @@DeltaEncoding::is_empty@@
}

// ---- C15 round trips, unbounded, over the contracts alone ---------------------------------------------
fn roundtrip_unsigned(values: &[u64]) -> (out: Vec<u64>)
    requires sorted(values@),
    ensures out@ == values@,
{
    let e = DeltaEncoding::encode(values);
    proof { if values@.len() > 0 { lemma_roundtrip(values@); } }
    e.decode()
}
fn roundtrip_signed(values: &[i64]) -> (out: Vec<i64>)
    ensures out@ == values@,
{
    let e = DeltaEncoding::encode_signed(values);
    proof { axiom_zigzag_inverse(); if values@.len() > 0 { lemma_roundtrip_signed(values@); } }
    e.decode_signed()
}

} // verus!
fn main() {}
'''


def build(repo):
    u = Unit('delta', ['C15'], repo, TEMPLATE)
    u.item(SRC, 'struct', 'DeltaEncoding').D1(keep_derive=set()).V1()
    z = u.free_fn(SRC, 'zigzag_decode').D1().ret('r')
    z.sig_attr('#[verifier::external_body]')
    z.ensures('unzz', 'r == unzz(value)')
    u.trust('external_body zigzag_decode', 'signed-shift bit trick; its contract (inverse of zigzag_encode on all 2^64 inputs) is proved by Kani unit codec_kani, not by Verus')
    u.trust('external_body axiom_zigzag_inverse', 'unzz(zz(v)) == v for all v: the statement Kani proves for the real zigzag_decode/zigzag_encode')


    ze = u.free_fn(SRC, 'zigzag_encode').D1().ret('r')
    ze.sig_attr('#[verifier::external_body]')
    ze.ensures('zz', 'r == zz(value)')
    u.trust('external_body zigzag_encode', 'signed-shift bit trick; proved inverse to zigzag_decode by Kani unit codec_kani')

    # ---- encode / encode_signed: adapter chains rewritten (R15), unbounded ----
    f = u.method(SRC, 'DeltaEncoding', 'encode').D1().ret('r')
    f.resub('X1', r'debug_assert!\(\s*values\.windows\(2\)\.all\(\|w\| w\[0\] <= w\[1\]\),\s*"[^"]*"\s*\);', 'assert(sorted(values@));', flags=0)
    f.R15('deltas')
    f.requires('sorted', 'sorted(values@)')
    f.ensures('wf', 'r.wf() && r.count == values@.len()')
    f.ensures('deltas_are_diffs', 'values@.len() > 0 ==> r.base == values@[0] && r.deltas@ == diffs(values@)')
    L = f.loop(0).kind('for')
    L.invariants(('sorted', 'sorted(values@) && values@.len() > 0'),
                 ('prefix', 'deltas@.len() == i__ - 1 && forall|k: int| 0 <= k < i__ - 1 ==> #[trigger] deltas@[k] == (values@[k + 1] - values@[k]) as u64'))
    L.after('proof { assert(deltas@ =~= diffs(values@)); }')

    f = u.method(SRC, 'DeltaEncoding', 'encode_signed').D1().ret('r')
    f.R15('deltas')
    f.ensures('wf', 'r.wf() && r.count == values@.len()')
    f.ensures('deltas_are_zigzag_diffs', 'values@.len() > 0 ==> r.base == zz(values@[0]) && r.deltas@ == sdiffs(values@)')
    L = f.loop(0).kind('for')
    L.invariants(('nonempty', 'values@.len() > 0'),
                 ('prefix', 'deltas@.len() == i__ - 1 && forall|k: int| 0 <= k < i__ - 1 ==> #[trigger] deltas@[k] == zz(swsub(values@[k + 1], values@[k]))'))
    L.after('proof { assert(deltas@ =~= sdiffs(values@)); }')

    f = u.method(SRC, 'DeltaEncoding', 'decode').D1().R1().ret('r')
    f.ensures('empty', 'self.count == 0 ==> r@.len() == 0')
    f.ensures('prefix', 'self.count > 0 ==> r@ == prefix(self.base, self.deltas@)')
    L = f.loop(0).kind('for').iter('it')
    L.invariants(
        ('prefix', 'result@ == prefix(self.base, self.deltas@.take(it.index@ as int))'),
        ('current', 'current == result@.last() && result@.len() >= 1'),
        ('iter', 'it.seq().len() == self.deltas@.len() && forall|k: int| 0 <= k < it.seq().len() ==> *(#[trigger] it.seq()[k]) == self.deltas@[k]'),
    )
    L.before('proof { assert(self.deltas@.take(0) =~= Seq::<u64>::empty()); }')
    L.body_end('''proof {
    let t = self.deltas@.take(it.index@ + 1);
    assert(t.drop_last() =~= self.deltas@.take(it.index@ as int));
    assert(t.last() == delta);
}''')
    L.after('proof { assert(self.deltas@.take(self.deltas@.len() as int) =~= self.deltas@); }')

    f = u.method(SRC, 'DeltaEncoding', 'decode_signed').D1().R1().ret('r')
    f.ensures('empty', 'self.count == 0 ==> r@.len() == 0')
    f.ensures('prefix', 'self.count > 0 ==> r@ == sprefix(unzz(self.base), self.deltas@)')
    L = f.loop(0).kind('for').iter('it')
    L.invariants(
        ('prefix', 'result@ == sprefix(unzz(self.base), self.deltas@.take(it.index@ as int))'),
        ('current', 'current == result@.last() && result@.len() >= 1'),
        ('iter', 'it.seq().len() == self.deltas@.len() && forall|k: int| 0 <= k < it.seq().len() ==> *(#[trigger] it.seq()[k]) == self.deltas@[k]'),
    )
    L.before('proof { assert(self.deltas@.take(0) =~= Seq::<u64>::empty()); }')
    L.body_end('''proof {
    let t = self.deltas@.take(it.index@ + 1);
    assert(t.drop_last() =~= self.deltas@.take(it.index@ as int));
    assert(t.last() == delta);
}''')
    L.after('proof { assert(self.deltas@.take(self.deltas@.len() as int) =~= self.deltas@); }')

    f = u.method(SRC, 'DeltaEncoding', 'len').D1().ret('r')
    f.ensures('count', 'r == self.count')
    f = u.method(SRC, 'DeltaEncoding', 'is_empty').D1().ret('r')
    f.ensures('count', 'r == (self.count == 0)')
    u.not_covered += ['DeltaEncoding::{max_delta, bits_for_max_delta, to_bytes/from_bytes (Kani bounded)']
    return u
