"""Unit CODEC_BYTES (C15): "serialising an encoded block to bytes and back changes nothing" for BitVector, BitPackedInts, DeltaBitPacked and
DeltaEncoding - unbounded (any number of words), replacing the bounded Kani harnesses (which reached length 0 only for BitPackedInts).

std's little-endian conversions are not specified in vstd (and `assume_specification` cannot name their array-length constant), so
`x.to_le_bytes()` / `uN::from_le_bytes(slice.try_into().unwrap())` are outlined into four helpers whose BODY is the original expression and
whose contract is ASSUMED over uninterpreted encodings le4 / le8 with unleK(leK(x)) == x and |leK(x)| == k (rules R23 / R24).  The slice
bounds of every read become proof obligations (requires of the helper)."""
from vlib import Unit

BV = 'crates/grafeo-core/src/storage/bitvec.rs'
BP = 'crates/grafeo-core/src/storage/bitpack.rs'
DE = 'crates/grafeo-core/src/storage/delta.rs'
RL = 'crates/grafeo-core/src/storage/runlength.rs'

TEMPLATE = r'''
use vstd::prelude::*;
use std::io;
verus! {
global size_of usize == 8;

// ---- assumed: std little-endian conversions (R23 / R24), opaque io::Error (R26) ----------------------
pub uninterp spec fn le8(x: u64) -> Seq<u8>;
pub uninterp spec fn unle8(s: Seq<u8>) -> u64;
pub uninterp spec fn le4(x: u32) -> Seq<u8>;
pub uninterp spec fn unle4(s: Seq<u8>) -> u32;
#[verifier::external_body] pub proof fn axiom_le() ensures
    forall|x: u64| #![trigger le8(x)] le8(x).len() == 8 && unle8(le8(x)) == x,
    forall|x: u32| #![trigger le4(x)] le4(x).len() == 4 && unle4(le4(x)) == x { }
#[verifier::external_body] fn put_le_u64(buf: &mut Vec<u8>, x: u64) ensures final(buf)@ == old(buf)@ + le8(x) { buf.extend_from_slice(&x.to_le_bytes()); }
#[verifier::external_body] fn put_le_u32(buf: &mut Vec<u8>, x: u32) ensures final(buf)@ == old(buf)@ + le4(x) { buf.extend_from_slice(&x.to_le_bytes()); }
#[verifier::external_body] fn get_le_u64(b: &[u8], a: usize) -> (r: u64) requires a + 8 <= b@.len() ensures r == unle8(b@.subrange(a as int, a + 8)) { u64::from_le_bytes(b[a..a + 8].try_into().unwrap()) }
#[verifier::external_body] fn get_le_u32(b: &[u8], a: usize) -> (r: u32) requires a + 4 <= b@.len() ensures r == unle4(b@.subrange(a as int, a + 4)) { u32::from_le_bytes(b[a..a + 4].try_into().unwrap()) }
#[verifier::external_body] fn suffix(b: &[u8], a: usize) -> (r: &[u8]) requires a <= b@.len() ensures r@ == b@.subrange(a as int, b@.len() as int) { &b[a..] }
#[verifier::external_body] fn le_u64_of(b: [u8; 8]) -> (r: u64) ensures r == unle8(b@) { u64::from_le_bytes(b) }
// R31: std::io::Cursor<&[u8]> with read_exact into an 8-byte buffer - ASSUMED std behaviour over the abstract `rest` (bytes not yet consumed)
#[verifier::external_body] pub struct ByteCursor<'a> { c: std::io::Cursor<&'a [u8]> }
impl<'a> ByteCursor<'a> {
    pub uninterp spec fn rest(&self) -> Seq<u8>;
    #[verifier::external_body] fn new(b: &'a [u8]) -> (r: Self) ensures r.rest() == b@ { ByteCursor { c: std::io::Cursor::new(b) } }
    #[verifier::external_body] fn read_exact(&mut self, buf: &mut [u8; 8]) -> (r: io::Result<()>)
        ensures old(self).rest().len() >= 8 ==> r is Ok && final(buf)@ == old(self).rest().subrange(0, 8) && final(self).rest() == old(self).rest().subrange(8, old(self).rest().len() as int),
                old(self).rest().len() < 8 ==> r is Err,
    { use std::io::Read; self.c.read_exact(buf) }
}
#[verifier::external_type_specification] #[verifier::external_body] pub struct ExIoError(std::io::Error);
#[verifier::external_body] fn io_invalid_data() -> io::Error { io::Error::new(io::ErrorKind::InvalidData, "") }

/// the words of a block, each as 8 little-endian bytes
pub open spec fn words_le(d: Seq<u64>) -> Seq<u8> decreases d.len() { if d.len() == 0 { Seq::empty() } else { words_le(d.drop_last()) + le8(d.last()) } }
proof fn lemma_words_le(d: Seq<u64>)
    ensures words_le(d).len() == 8 * d.len(),
            forall|i: int| 0 <= i < d.len() ==> #[trigger] words_le(d).subrange(8 * i, 8 * i + 8) == le8(d[i]),
    decreases d.len()
{
    axiom_le();
    if d.len() > 0 {
        let p = d.drop_last();
        lemma_words_le(p);
        assert forall|i: int| 0 <= i < d.len() implies #[trigger] words_le(d).subrange(8 * i, 8 * i + 8) == le8(d[i]) by {
            if i < p.len() { assert(words_le(d).subrange(8 * i, 8 * i + 8) =~= words_le(p).subrange(8 * i, 8 * i + 8)); assert(p[i] == d[i]); }
            else { assert(words_le(d).subrange(8 * i, 8 * i + 8) =~= le8(d.last())); }
        }
    }
}
proof fn lemma_words_le_take(d: Seq<u64>, n: int)
    requires 0 <= n < d.len()
    ensures words_le(d.take(n + 1)) == words_le(d.take(n)) + le8(d[n])
{
    let t = d.take(n + 1);
    assert(t.drop_last() =~= d.take(n));
    assert(t.last() == d[n]);
}

// the decoded views (the same definitions as in units BITVEC / BITPACK)
pub open spec fn bit(w: u64, k: int) -> bool { (w >> (k as u64)) & 1 == 1 }
pub open spec fn bv_elem(data: Seq<u64>, i: int) -> bool { bit(data[i / 64], i % 64) }
pub open spec fn bv_view(data: Seq<u64>, len: usize) -> Seq<bool> { Seq::new(len as nat, |i: int| bv_elem(data, i)) }
pub open spec fn mask_of(bits: u64) -> u64 { if bits >= 64 { u64::MAX } else { ((1u64 << bits) - 1) as u64 } }
pub open spec fn field(w: u64, off: u64, bits: u64) -> u64 { (w >> off) & mask_of(bits) }
pub open spec fn elem_of(data: Seq<u64>, bits: u8, i: int) -> u64 {
    if bits == 0 { 0 } else {
        field(data[i / (64int / (bits as int))], ((i % (64int / (bits as int))) * (bits as int)) as u64, bits as u64)
    }
}
pub open spec fn view_of(data: Seq<u64>, bits: u8, count: usize) -> Seq<u64> { Seq::new(count as nat, |i: int| elem_of(data, bits, i)) }

@@BitVector@@
impl BitVector {
    pub open spec fn nw(&self) -> int { (self.len + 63) / 64 }
    /// the serialised form: len as u32, then the words
    pub open spec fn ser(&self) -> Seq<u8> { le4(self.len as u32) + words_le(self.data@) }
    /// blocks the byte format can carry: at most u32::MAX bits, exactly the words those bits need (what every constructor builds)
    pub open spec fn ser_ok(&self) -> bool { self.len <= u32::MAX && self.data@.len() >= self.nw() }

    @@BitVector::to_bytes@@

    @@BitVector::from_bytes@@
}

@@BitPackedInts@@
impl BitPackedInts {
    pub open spec fn nw(&self) -> int {
        if self.bits_per_value == 0 || self.count == 0 { 0int } else { (self.count + (64int / (self.bits_per_value as int)) - 1) / (64int / (self.bits_per_value as int)) }
    }
    pub open spec fn ser(&self) -> Seq<u8> { seq![self.bits_per_value] + le4(self.count as u32) + words_le(self.data@) }
    pub open spec fn ser_ok(&self) -> bool { self.count <= u32::MAX && self.bits_per_value <= 64 && self.data@.len() >= self.nw() }

    pub proof fn lemma_nw_le_count(&self)
        requires self.bits_per_value <= 64
        ensures 0 <= self.nw() <= self.count
    {
        if self.bits_per_value != 0 && self.count != 0 {
            let v = 64int / (self.bits_per_value as int);
            assert(v >= 1) by (nonlinear_arith) requires v == 64int / (self.bits_per_value as int), 1 <= self.bits_per_value <= 64;
            assert((self.count + v - 1) / v <= self.count && (self.count + v - 1) / v >= 0) by (nonlinear_arith) requires v >= 1, self.count >= 1;
        }
    }

    /// decoding reads only the first nw() words
    pub proof fn lemma_view_needs_only_nw_words(&self)
        requires self.bits_per_value <= 64, self.data@.len() >= self.nw(),
        ensures view_of(self.data@.take(self.nw()), self.bits_per_value, self.count) == view_of(self.data@, self.bits_per_value, self.count)
    {
        self.lemma_nw_le_count();
        if self.bits_per_value != 0 && self.count != 0 {
            let v = 64int / (self.bits_per_value as int);
            let c = self.count as int;
            assert(v >= 1) by (nonlinear_arith) requires v == 64int / (self.bits_per_value as int), 1 <= self.bits_per_value <= 64;
            assert forall|i: int| 0 <= i < c implies #[trigger] elem_of(self.data@.take(self.nw()), self.bits_per_value, i) == elem_of(self.data@, self.bits_per_value, i) by {
                assert(i / v < (c + v - 1) / v && i / v >= 0) by (nonlinear_arith) requires v >= 1, 0 <= i < c;
                assert(i / v < self.nw());
            }
        }
        assert(view_of(self.data@.take(self.nw()), self.bits_per_value, self.count) =~= view_of(self.data@, self.bits_per_value, self.count));
    }

    // callee contracts proved in unit BITPACK (post#count, post#wf, post#empty_has_width_zero); restated here so that a from_bytes that builds its
    // result through the constructors stays decidable
    #[verifier::external_body] pub fn pack(values: &[u64]) -> (r: Self)
        ensures r.count == values@.len(), r.bits_per_value <= 64, r.data@.len() >= r.nw(), values@.len() == 0 ==> r.bits_per_value == 0
    { unimplemented!() }

    @@BitPackedInts::to_bytes@@

    @@BitPackedInts::from_bytes@@
}

@@DeltaBitPacked@@
impl DeltaBitPacked {
    pub open spec fn ser(&self) -> Seq<u8> { le8(self.base) + self.deltas.ser() }

    @@DeltaBitPacked::to_bytes@@

    @@DeltaBitPacked::from_bytes@@
}

@@DeltaEncoding@@
impl DeltaEncoding {
    pub open spec fn ser(&self) -> Seq<u8> { le8(self.base) + le4(self.count as u32) + words_le(self.deltas@) }
    pub open spec fn nd(&self) -> int { if self.count == 0 { 0 } else { self.count - 1 } }
    pub open spec fn ser_ok(&self) -> bool { self.count <= u32::MAX && self.deltas@.len() >= self.nd() }

    @@DeltaEncoding::to_bytes@@

    @@DeltaEncoding::from_bytes@@
}

@@Run@@
impl<T> Run<T> {
    @@Run::new@@
}
@@RunLengthEncoding@@
pub open spec fn total_len(runs: Seq<Run<u64>>) -> nat
    decreases runs.len()
{ if runs.len() == 0 { 0 } else { total_len(runs.drop_last()) + runs.last().length as nat } }
/// value0, length0, value1, length1, ...
pub open spec fn flat(runs: Seq<Run<u64>>) -> Seq<u64> { Seq::new(2 * runs.len(), |i: int| if i % 2 == 0 { runs[i / 2].value } else { runs[i / 2].length }) }
proof fn lemma_flat_take(runs: Seq<Run<u64>>, n: int)
    requires 0 <= n < runs.len()
    ensures words_le(flat(runs.take(n + 1))) == words_le(flat(runs.take(n))) + le8(runs[n].value) + le8(runs[n].length)
{
    let a = flat(runs.take(n)); let b = flat(runs.take(n + 1));
    let m = a.push(runs[n].value);
    assert(b =~= m.push(runs[n].length));
    assert(b.drop_last() =~= m); assert(m.drop_last() =~= a);
    assert(words_le(b) =~= words_le(m) + le8(runs[n].length));
    assert(words_le(m) =~= words_le(a) + le8(runs[n].value));
}
proof fn lemma_total_take(runs: Seq<Run<u64>>, n: int)
    requires 0 <= n < runs.len()
    ensures total_len(runs.take(n + 1)) == total_len(runs.take(n)) + runs[n].length as nat, total_len(runs.take(n)) <= total_len(runs),
    decreases runs.len() - n
{
    assert(runs.take(n + 1).drop_last() =~= runs.take(n));
    if n + 1 < runs.len() { lemma_total_take(runs, n + 1); } else { assert(runs.take(n + 1) =~= runs); }
}
impl RunLengthEncoding {
    pub open spec fn ser(&self) -> Seq<u8> { le8(self.runs@.len() as u64) + words_le(flat(self.runs@)) }
    /// the unit RLE's representation invariant: total_count is the sum of the run lengths
    pub open spec fn wf(&self) -> bool { self.total_count as nat == total_len(self.runs@) }

    @@RunLengthEncoding::from_runs@@

    @@RunLengthEncoding::to_bytes@@

    @@RunLengthEncoding::from_bytes@@
}

// ---- the C15 clause, over the contracts alone -----------------------------------------------------------
// from_bytes(to_bytes(x)) has the same header fields and exactly the words the header calls for (trailing spare words, which no
// constructor creates but the type allows, are not carried) - and therefore DECODES to the same sequence (lemmas below).
fn bitvec_bytes_roundtrip(x: &BitVector) -> (r: io::Result<BitVector>)
    requires x.ser_ok(), x.data@.len() <= 0x0fff_ffff_ffff_ffff,
    ensures r is Ok && r->Ok_0.len == x.len && r->Ok_0.data@ == x.data@.take(x.nw()), bv_view(r->Ok_0.data@, r->Ok_0.len) == bv_view(x.data@, x.len),
{
    let b = x.to_bytes();
    let r = BitVector::from_bytes(b.as_slice());
    proof { assert(bv_view(x.data@.take(x.nw()), x.len) =~= bv_view(x.data@, x.len)); }
    r
}
fn bitpack_bytes_roundtrip(x: &BitPackedInts) -> (r: io::Result<BitPackedInts>)
    requires x.ser_ok(), x.data@.len() <= 0x0fff_ffff_ffff_ffff,
    ensures r is Ok && r->Ok_0.count == x.count && r->Ok_0.bits_per_value == x.bits_per_value && r->Ok_0.data@ == x.data@.take(x.nw()),
            view_of(r->Ok_0.data@, r->Ok_0.bits_per_value, r->Ok_0.count) == view_of(x.data@, x.bits_per_value, x.count),
{
    let b = x.to_bytes();
    proof { axiom_le(); assert(b@[0] == x.bits_per_value); }
    let r = BitPackedInts::from_bytes(b.as_slice());
    proof { x.lemma_view_needs_only_nw_words(); }
    r
}
fn delta_bitpacked_bytes_roundtrip(x: &DeltaBitPacked) -> (r: io::Result<DeltaBitPacked>)
    requires x.deltas.ser_ok(), x.deltas.data@.len() <= 0x0fff_ffff_ffff_ff00,
    ensures r is Ok && r->Ok_0.base == x.base && r->Ok_0.deltas.count == x.deltas.count && r->Ok_0.deltas.bits_per_value == x.deltas.bits_per_value && r->Ok_0.deltas.data@ == x.deltas.data@.take(x.deltas.nw()),
            view_of(r->Ok_0.deltas.data@, r->Ok_0.deltas.bits_per_value, r->Ok_0.deltas.count) == view_of(x.deltas.data@, x.deltas.bits_per_value, x.deltas.count),
{
    let b = x.to_bytes();
    proof { axiom_le(); assert(b@[8] == x.deltas.bits_per_value); }
    let r = DeltaBitPacked::from_bytes(b.as_slice());
    proof { x.deltas.lemma_view_needs_only_nw_words(); }
    r
}
fn rle_bytes_roundtrip(x: &RunLengthEncoding) -> (r: io::Result<RunLengthEncoding>)
    requires x.wf(), x.runs@.len() <= 0x00ff_ffff_ffff_ffff,
    ensures r is Ok && r->Ok_0.runs@ == x.runs@ && r->Ok_0.total_count == x.total_count,
{ let n = x.runs.len(); let b = x.to_bytes(); proof { assert(x.wf() && x.runs@.len() <= usize::MAX && b@ == x.ser()); } RunLengthEncoding::from_bytes(b.as_slice()) }
fn delta_bytes_roundtrip(x: &DeltaEncoding) -> (r: io::Result<DeltaEncoding>)
    requires x.ser_ok(), x.deltas@.len() <= 0x0fff_ffff_ffff_ff00,
    ensures r is Ok && r->Ok_0.base == x.base && r->Ok_0.count == x.count && r->Ok_0.deltas@ == x.deltas@.take(x.nd()),
            x.deltas@.len() == x.nd() ==> r->Ok_0.deltas@ == x.deltas@,          // delta.rs: wf is count == 0 || count == deltas.len() + 1
{
    let b = x.to_bytes();
    let r = DeltaEncoding::from_bytes(b.as_slice());
    proof { if x.deltas@.len() == x.nd() { assert(x.deltas@.take(x.nd()) =~= x.deltas@); } }
    r
}

} // verus!
fn main() {}
'''

ITER = 'it.seq().len() == %s@.len() && forall|k: int| 0 <= k < it.seq().len() ==> *(#[trigger] it.seq()[k]) == %s@[k]'


def to_bytes(u, src, ty, words, head, room):
    """shared shape: header puts, then one put_le_u64 per word"""
    f = u.method(src, ty, 'to_bytes').D1().R1().R23().ret('buf')
    f.resub('R2', r'in &self\.%s \{' % words, 'in self.%s.iter() {' % words)
    f.requires('capacity_room', room)        # machine range of the `with_capacity` argument
    f.ensures('layout', 'buf@ == self.ser()')
    L = f.loop(0).kind('for').iter('it')
    L.invariants(('layout_prefix', 'buf@ == %s + words_le(self.%s@.take(it.index@ as int))' % (head, words)), ('iter', ITER % ('self.' + words, 'self.' + words)))
    L.before('proof { assert(self.%s@.take(0) =~= Seq::<u64>::empty()); assert(buf@ =~= %s + words_le(self.%s@.take(0))); }' % (words, head, words))
    L.body_end('proof { lemma_words_le_take(self.%s@, it.index@ as int); assert(buf@ =~= %s + words_le(self.%s@.take(it.index@ + 1))); }' % (words, head, words))
    L.after('proof { assert(self.%s@.take(self.%s@.len() as int) =~= self.%s@); }' % (words, words, words))
    return f


def build(repo):
    u = Unit('codec_bytes', ['C15'], repo, TEMPLATE)
    for w, why in [('external_body axiom_le', 'std: from_le_bytes(to_le_bytes(x)) == x and the encodings are 4 / 8 bytes long'),
                   ('external_body put_le_u64', 'R23: body is the original statement; ASSUMED to append le8(x)'), ('external_body put_le_u32', 'R23: ASSUMED to append le4(x)'),
                   ('external_body get_le_u64', 'R24: body is the original expression; ASSUMED to return unle8 of the 8 bytes at the offset (bounds are a proof obligation)'),
                   ('external_body get_le_u32', 'R24: as get_le_u64, 4 bytes'), ('external_body suffix', 'R25: `&b[a..]`'),
                   ('external_body ExIoError', 'R26: io::Error is opaque'), ('external_type_specification ExIoError', 'R26: declares std::io::Error to Verus'), ('external_body io_invalid_data', 'R26: the error value is not observed, only Ok/Err')]:
        u.trust(w, why)
    u.trust('external_body BitPackedInts::pack', 'callee contract proved in unit BITPACK (pack::post#count / #wf / #empty_has_width_zero), restated')
    u.assume('usize is 64 bits (`global size_of usize == 8`)')
    u.item(BV, 'struct', 'BitVector').D1(keep_derive=set()).V1()
    u.item(BP, 'struct', 'BitPackedInts').D1(keep_derive=set()).V1()
    u.item(BP, 'struct', 'DeltaBitPacked').D1(keep_derive=set()).V1()
    u.item(DE, 'struct', 'DeltaEncoding').D1(keep_derive=set()).V1()

    # ---- BitVector ----
    to_bytes(u, BV, 'BitVector', 'data', 'le4(self.len as u32)', 'self.data@.len() <= 0x0fff_ffff_ffff_ffff')
    f = u.method(BV, 'BitVector', 'from_bytes').D1().R24().R26().ret('r')
    Q = 'forall|x: BitVector| x.ser_ok() && bytes@ == #[trigger] x.ser()'
    f.ensures('inverse_of_to_bytes', Q + ' ==> r is Ok && r->Ok_0.len == x.len && r->Ok_0.data@ == x.data@.take(x.nw())')
    f.body_start('proof { axiom_le(); }')
    f.before('if bytes.len() < 4 + num_words * 8', '''proof {
    assert %s implies x.len == len && bytes@.len() >= 4 + num_words * 8 by { lemma_words_le(x.data@); assert(bytes@.subrange(0, 4) =~= le4(x.len as u32)); }
}''' % Q)
    L = f.loop(0).kind('for')
    L.invariants(('bounds', 'bytes@.len() >= 4 + num_words * 8 && data@.len() == i && num_words == (len + 63) / 64 && len <= u32::MAX && bytes@.len() >= 4 && len == unle4(bytes@.subrange(0, 4))'),
                 ('words_prefix', Q + ' ==> data@ == x.data@.take(i as int)'))
    L.body_end('''proof {
    assert %s implies data@ == x.data@.take(i + 1) by {
        lemma_words_le(x.data@); axiom_le();
        assert(bytes@.subrange(0, 4) =~= le4(x.len as u32));
        assert(bytes@.subrange(offset as int, offset + 8) =~= words_le(x.data@).subrange(8 * i, 8 * i + 8));
        assert(x.data@.take(i + 1) =~= x.data@.take(i as int).push(word));
    }
}''' % Q)
    L.after('''proof {
    assert %s implies data@ == x.data@.take(x.nw()) && x.len == len by { axiom_le(); assert(bytes@.subrange(0, 4) =~= le4(x.len as u32)); }
}''' % Q)

    # ---- BitPackedInts ----
    HB = 'seq![self.bits_per_value] + le4(self.count as u32)'
    f = to_bytes(u, BP, 'BitPackedInts', 'data', HB, 'self.data@.len() <= 0x0fff_ffff_ffff_ffff')
    f = u.method(BP, 'BitPackedInts', 'from_bytes').D1().R24().R26().ret('r')
    Q = 'forall|x: BitPackedInts| x.ser_ok() && bytes@ == #[trigger] x.ser()'
    HDR = 'assert(bytes@[0] == x.bits_per_value); assert(bytes@.subrange(1, 5) =~= le4(x.count as u32));'
    f.ensures('inverse_of_to_bytes', Q + ' ==> r is Ok && r->Ok_0.count == x.count && r->Ok_0.bits_per_value == x.bits_per_value && r->Ok_0.data@ == x.data@.take(x.nw())')
    # weakest precondition of `(count + vpw - 1) / vpw` with vpw = 64 / bits: a header byte > 64 makes vpw 0 and the division PANICS (arbitrary bytes are outside C15; every serialised block has bits <= 64)
    f.requires('header_bits_at_most_64', 'bytes@.len() >= 1 ==> bytes@[0] <= 64')
    f.body_start('proof { axiom_le(); }')
    f.after('let values_per_word = 64 / bits_per_value as usize;', '''proof {
    let v = values_per_word as int; let b = bits_per_value as int; let c = count as int;
    assert(v >= 1) by (nonlinear_arith) requires v == 64int / b, 1 <= b <= 64;
    assert((c + v - 1) / v <= c) by (nonlinear_arith) requires v >= 1, c >= 1;
}''')
    f.before('if bytes.len() < 5 + num_words * 8', '''proof {
    assert %s implies x.count == count && x.bits_per_value == bits_per_value && num_words == x.nw() && bytes@.len() >= 5 + num_words * 8 by { lemma_words_le(x.data@); %s }
}''' % (Q, HDR))
    L = f.loop(0).kind('for')
    L.invariants(('bounds', 'bytes@.len() >= 5 + num_words * 8 && num_words <= count && data@.len() == i && bytes@.len() >= 5 && count <= u32::MAX && count == unle4(bytes@.subrange(1, 5)) && bits_per_value == bytes@[0]'),
                 ('words_prefix', Q + ' ==> num_words == x.nw() && data@ == x.data@.take(i as int)'))
    L.body_end('''proof {
    assert %s implies data@ == x.data@.take(i + 1) by {
        lemma_words_le(x.data@); axiom_le(); %s
        assert(bytes@.subrange(offset as int, offset + 8) =~= words_le(x.data@).subrange(8 * i, 8 * i + 8));
        assert(x.data@.take(i + 1) =~= x.data@.take(i as int).push(word));
    }
}''' % (Q, HDR))
    L.after('''proof {
    assert %s implies data@ == x.data@.take(x.nw()) && x.count == count && x.bits_per_value == bits_per_value by { axiom_le(); %s }
}''' % (Q, HDR))

    # ---- DeltaBitPacked (composes BitPackedInts) ----
    f = u.method(BP, 'DeltaBitPacked', 'to_bytes').D1().R23().ret('buf')
    f.resub('X1', r'buf\.extend_from_slice\(&delta_bytes\);', 'buf.extend_from_slice(delta_bytes.as_slice());')     # &Vec<u8> -> &[u8] made explicit
    f.requires('capacity_room', 'self.deltas.data@.len() <= 0x0fff_ffff_ffff_ff00')
    f.ensures('layout', 'buf@ == self.ser()')
    f.after('let delta_bytes = self.deltas.to_bytes();', 'proof { lemma_words_le(self.deltas.data@); axiom_le(); }')
    f.before_tail('proof { assert(buf@ =~= self.ser()); }')
    f = u.method(BP, 'DeltaBitPacked', 'from_bytes').D1().R24().R25().R26().ret('r')
    f.requires('header_bits_at_most_64', 'bytes@.len() >= 9 ==> bytes@[8] <= 64')
    f.ensures('inverse_of_to_bytes', 'forall|x: DeltaBitPacked| x.deltas.ser_ok() && bytes@ == #[trigger] x.ser() ==> r is Ok && r->Ok_0.base == x.base && r->Ok_0.deltas.count == x.deltas.count'
              ' && r->Ok_0.deltas.bits_per_value == x.deltas.bits_per_value && r->Ok_0.deltas.data@ == x.deltas.data@.take(x.deltas.nw())')
    f.body_start('proof { axiom_le(); }')
    f.before('let deltas', '''proof {
    assert forall|x: DeltaBitPacked| x.deltas.ser_ok() && bytes@ == #[trigger] x.ser() implies base == x.base && bytes@.subrange(8, bytes@.len() as int) == x.deltas.ser() by {
        assert(bytes@.subrange(0, 8) =~= le8(x.base));
        assert(bytes@.subrange(8, bytes@.len() as int) =~= x.deltas.ser());
    }
}''')

    # ---- DeltaEncoding ----
    HD = 'le8(self.base) + le4(self.count as u32)'
    to_bytes(u, DE, 'DeltaEncoding', 'deltas', HD, 'self.deltas@.len() <= 0x0fff_ffff_ffff_fff0')
    f = u.method(DE, 'DeltaEncoding', 'from_bytes').D1().R24().R26().ret('r')
    f.resub('R27', r'for _ in ', 'for i__ in ')          # Verus has no `_` loop pattern
    Q = 'forall|x: DeltaEncoding| x.ser_ok() && bytes@ == #[trigger] x.ser()'
    HDR = 'assert(bytes@.subrange(0, 8) =~= le8(x.base)); assert(bytes@.subrange(8, 12) =~= le4(x.count as u32));'
    f.ensures('inverse_of_to_bytes', Q + ' ==> r is Ok && r->Ok_0.base == x.base && r->Ok_0.count == x.count && r->Ok_0.deltas@ == x.deltas@.take(x.nd())')
    f.body_start('proof { axiom_le(); }')
    f.before('if bytes.len() < expected_len', '''proof {
    assert %s implies x.count == count && x.base == base && bytes@.len() >= expected_len by { lemma_words_le(x.deltas@); %s }
}''' % (Q, HDR))
    L = f.loop(0).kind('for')
    # `1..count` with count == 0 is an empty range whose ghost index Verus does not pin to 1: position facts are stated under count >= 1
    L.invariants(('bounds', 'bytes@.len() >= expected_len && expected_len == 12 + (if count == 0 { 0int } else { count - 1 }) * 8 && count <= u32::MAX'
                  ' && (count >= 1 ==> deltas@.len() == i__ - 1 && offset == 12 + (i__ - 1) * 8) && (count == 0 ==> deltas@.len() == 0)'
                  ' && bytes@.len() >= 12 && count == unle4(bytes@.subrange(8, 12)) && base == unle8(bytes@.subrange(0, 8))'),
                 ('words_prefix', Q + ' ==> (count >= 1 ==> deltas@ == x.deltas@.take(i__ - 1))'))
    L.body_end('''proof {
    assert %s implies deltas@ == x.deltas@.take(i__ as int) by {
        lemma_words_le(x.deltas@); axiom_le(); %s
        assert(bytes@.subrange(offset - 8, offset as int) =~= words_le(x.deltas@).subrange(8 * (i__ - 1), 8 * (i__ - 1) + 8));
        assert(x.deltas@.take(i__ as int) =~= x.deltas@.take(i__ - 1).push(delta));
    }
}''' % (Q, HDR))
    L.after('''proof {
    assert %s implies deltas@ == x.deltas@.take(x.nd()) && x.count == count && x.base == base by { axiom_le(); %s if count == 0 { assert(deltas@ =~= x.deltas@.take(0)); } }
}''' % (Q, HDR))

    # ---- RunLengthEncoding (io::Cursor based reader: rule R31) ----
    u.trust('external_body le_u64_of', 'R31: u64::from_le_bytes on a [u8; 8]; ASSUMED to return unle8 of the bytes')
    u.trust('external_body ByteCursor', 'R31: stand-in for std::io::Cursor<&[u8]>'); u.trust('external_body ByteCursor::new', 'R31: Cursor::new starts at position 0')
    u.trust('external_body ByteCursor::read_exact', 'R31: std Cursor<&[u8]>::read_exact copies exactly 8 bytes and consumes them, or fails when fewer remain')
    u.item(RL, 'struct', 'Run').D1(keep_derive=set())
    u.method(RL, 'Run', 'new').D1().ret('r').ensures('fields', 'r.value == value && r.length == length')
    u.item(RL, 'struct', 'RunLengthEncoding').D1(keep_derive=set()).V1()
    f = u.method(RL, 'RunLengthEncoding', 'from_runs').D1().R30('total_count').ret('r')
    f.requires('total_fits', 'total_len(runs@) <= usize::MAX')        # machine range of the sum of the run lengths
    f.ensures('fields', 'r.runs@ == runs@ && r.wf()')
    L = f.loop(0).kind('for').iter('it')
    L.invariants(('partial_sum', 'total_count as nat == total_len(runs@.take(it.index@ as int)) && total_len(runs@) <= usize::MAX'), ('iter', ITER % ('runs', 'runs')))
    L.before('proof { assert(runs@.take(0) =~= Seq::<Run<u64>>::empty()); }')
    L.body_start('proof { lemma_total_take(runs@, it.index@ as int); if it.index@ + 1 < runs@.len() { lemma_total_take(runs@, it.index@ + 1); } else { assert(runs@.take(it.index@ + 1) =~= runs@); } }')
    L.after('proof { assert(runs@.take(runs@.len() as int) =~= runs@); }')
    f = u.method(RL, 'RunLengthEncoding', 'to_bytes').D1().R23().ret('bytes')
    f.resub('R2', r'in &self\.runs \{', 'in self.runs.iter() {')
    f.requires('capacity_room', 'self.runs@.len() <= 0x00ff_ffff_ffff_ffff')
    f.ensures('layout', 'bytes@ == self.ser()')
    HR = 'le8(self.runs@.len() as u64)'
    L = f.loop(0).kind('for').iter('it')
    L.invariants(('layout_prefix', 'bytes@ == %s + words_le(flat(self.runs@.take(it.index@ as int)))' % HR), ('iter', ITER % ('self.runs', 'self.runs')))
    L.before('proof { assert(flat(self.runs@.take(0)) =~= Seq::<u64>::empty()); assert(bytes@ =~= %s + words_le(flat(self.runs@.take(0)))); }' % HR)
    L.body_end('proof { lemma_flat_take(self.runs@, it.index@ as int); assert(bytes@ =~= %s + words_le(flat(self.runs@.take(it.index@ + 1)))); }' % HR)
    L.after('proof { assert(self.runs@.take(self.runs@.len() as int) =~= self.runs@); }')
    f = u.method(RL, 'RunLengthEncoding', 'from_bytes').D1().R31().ret('r')
    f.resub('R27', r'for _ in ', 'for i__ in ')
    Q = 'forall|x: RunLengthEncoding| x.wf() && bytes@ == #[trigger] x.ser()'
    f.ensures('inverse_of_to_bytes', Q + ' ==> r is Ok && r->Ok_0.runs@ == x.runs@ && r->Ok_0.total_count == x.total_count')
    # domain: serialised blocks only (on other bytes `.sum()` of the run lengths may overflow and `Vec::with_capacity(run_count)` may abort - outside C15)
    f.requires('is_a_serialised_block', 'exists|x: RunLengthEncoding| x.wf() && x.runs@.len() <= usize::MAX && bytes@ == #[trigger] x.ser()')
    f.body_start('''proof { axiom_le(); }
let ghost X = choose|x: RunLengthEncoding| x.wf() && x.runs@.len() <= usize::MAX && bytes@ == #[trigger] x.ser();
proof { lemma_words_le(flat(X.runs@)); assert(bytes@.len() == 8 + 16 * X.runs@.len()); }''')
    f.before('cursor.read_exact(&mut buf)?;', 'proof { assert(cursor.rest().len() >= 8); }', nth=0)
    L = f.loop(0).kind('for')
    L.invariants(('position', 'run_count == X.runs@.len() && bytes@ == X.ser() && X.wf() && bytes@.len() == 8 + 16 * X.runs@.len() && cursor.rest() == bytes@.subrange(8 + 16 * i__, bytes@.len() as int) && runs@ == X.runs@.take(i__ as int)'),)
    L.before('''proof {
    assert(buf@ =~= bytes@.subrange(0, 8));
    assert(bytes@.subrange(0, 8) =~= le8(X.runs@.len() as u64));
    axiom_le();
    assert(X.runs@.len() <= usize::MAX);
    assert(unle8(buf@) == X.runs@.len() as u64);
    assert((X.runs@.len() as u64) as usize == X.runs@.len());
    assert(run_count == X.runs@.len());
    assert(cursor.rest() =~= bytes@.subrange(8, bytes@.len() as int));
    assert(runs@ =~= X.runs@.take(0));
}''')
    L.body_start('let ghost rest0 = cursor.rest();\nproof { assert(rest0.len() >= 16); }')
    f.before('cursor.read_exact(&mut buf)?;', 'proof { assert(cursor.rest().len() >= 8); }', nth=2)
    L.body_end('''proof {
    lemma_words_le(flat(X.runs@)); axiom_le();
    let w = words_le(flat(X.runs@));
    assert(bytes@.subrange(0, 8) =~= le8(X.runs@.len() as u64));
    assert(rest0.subrange(0, 8) =~= w.subrange(8 * (2 * i__), 8 * (2 * i__) + 8));
    assert(rest0.subrange(8, rest0.len() as int).subrange(0, 8) =~= w.subrange(8 * (2 * i__ + 1), 8 * (2 * i__ + 1) + 8));
    assert(flat(X.runs@)[2 * i__] == X.runs@[i__ as int].value && flat(X.runs@)[2 * i__ + 1] == X.runs@[i__ as int].length);
    assert(cursor.rest() =~= bytes@.subrange(8 + 16 * (i__ + 1), bytes@.len() as int));
    assert(X.runs@.take(i__ + 1) =~= X.runs@.take(i__ as int).push(X.runs@[i__ as int]));
}''')
    L.after('''proof {
    assert(X.runs@.take(X.runs@.len() as int) =~= X.runs@);
    assert(runs@ == X.runs@ && total_len(runs@) <= usize::MAX);
    // the serialisation determines the block: any other wf x with the same bytes has the same runs
    assert %s implies x.runs@ == X.runs@ && x.total_count == X.total_count by {
        lemma_words_le(flat(x.runs@)); lemma_words_le(flat(X.runs@)); axiom_le();
        assert(bytes@.subrange(0, 8) =~= le8(x.runs@.len() as u64));
        assert(x.runs@.len() == X.runs@.len());
        assert forall|k: int| 0 <= k < x.runs@.len() implies x.runs@[k] == X.runs@[k] by {
            let wx = words_le(flat(x.runs@)); let wX = words_le(flat(X.runs@));
            assert(wx =~= bytes@.subrange(8, bytes@.len() as int)); assert(wX =~= bytes@.subrange(8, bytes@.len() as int));
            assert(wx.subrange(8 * (2 * k), 8 * (2 * k) + 8) == le8(flat(x.runs@)[2 * k])); assert(wX.subrange(8 * (2 * k), 8 * (2 * k) + 8) == le8(flat(X.runs@)[2 * k]));
            assert(wx.subrange(8 * (2 * k + 1), 8 * (2 * k + 1) + 8) == le8(flat(x.runs@)[2 * k + 1])); assert(wX.subrange(8 * (2 * k + 1), 8 * (2 * k + 1) + 8) == le8(flat(X.runs@)[2 * k + 1]));
            assert(flat(x.runs@)[2 * k] == x.runs@[k].value && flat(x.runs@)[2 * k + 1] == x.runs@[k].length);
            assert(flat(X.runs@)[2 * k] == X.runs@[k].value && flat(X.runs@)[2 * k + 1] == X.runs@[k].length);
        }
        assert(x.runs@ =~= X.runs@);
    }
}''' % Q)
    u.not_covered += [ 'behaviour of from_bytes on bytes that are NOT a serialised block (e.g. bits_per_value > 64 divides by zero) - outside the property']
    return u
