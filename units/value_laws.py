"""Kani unit VALUE_LAWS (C16): OrderedFloat64 / OrderableValue / HashableValue / Timestamp laws, loop-free, all bit patterns."""
import os
from klib import KaniUnit

REL = 'crates/grafeo-common/src/types/value.rs'
OV = ['int', 'float', 'bool', 'ts']
HV = ['null', 'bool', 'int', 'float', 'ts']


def build(repo):
    u = KaniUnit('value_laws', ['C16'], 'grafeo-common', copy_crates=['grafeo-common'])
    u.module = 'types::value::verif_value_laws'
    text = open(os.path.join(os.path.dirname(os.path.dirname(os.path.abspath(__file__))), 'kani', 'value_laws.rs')).read()
    gen_ov, gen_hv = [], []
    for n, ob in (('of64_cmp_total_order', 'cmp::total_order'), ('of64_cmp_consistent_with_eq', 'cmp::consistent_with_eq'),
                  ('of64_eq_equivalence', 'eq::equivalence'), ('of64_eq_implies_same_hash_stream', 'hash::agrees_with_eq')):
        u.harness(n, 'value::OrderedFloat64::' + ob)
    for i, a in enumerate(OV):
        for j, b in enumerate(OV):
            for part, pn in ((0, 'rev'), (1, 'eq'), (2, 'sym')):
                n = 'ov_pair_%s_%s_%s' % (pn, a, b)
                gen_ov.append('pair!(%s, %d, %d, %d);' % (n, part, i, j))
                u.harness(n, 'value::OrderableValue::cmp_eq::%s(%s,%s)' % ({0: 'antisymmetric', 1: 'consistent_with_eq', 2: 'eq_symmetric+partial_cmp'}[part], a, b), timeout=1200)
            n = 'ov_hash_%s_%s' % (a, b)
            gen_ov.append('pairh!(%s, %d, %d);' % (n, i, j))
            u.harness(n, 'value::OrderableValue::hash::agrees_with_eq(%s,%s)' % (a, b))
            for k, c in enumerate(OV):
                n = 'ov_triple_%s_%s_%s' % (a, b, c)
                gen_ov.append('triple!(%s, %d, %d, %d);' % (n, i, j, k))
                numeric = all(x in ('int', 'float') for x in (a, b, c))
                u.harness(n, 'value::OrderableValue::cmp::transitive(%s,%s,%s)' % (a, b, c), tier='quick' if numeric or (i == j == k) else 'thorough')
    for i, a in enumerate(HV):
        for j, b in enumerate(HV):
            n = 'hv_pair_%s_%s' % (a, b)
            gen_hv.append('hpair!(%s, %d, %d);' % (n, i, j))
            u.harness(n, 'value::HashableValue::eq_hash::pair(%s,%s)' % (a, b))
            for k, c in enumerate(HV):
                n = 'hv_triple_%s_%s_%s' % (a, b, c)
                gen_hv.append('htriple!(%s, %d, %d, %d);' % (n, i, j, k))
                u.harness(n, 'value::HashableValue::eq::transitive(%s,%s,%s)' % (a, b, c), tier='quick' if (i == j == k) or 'float' in (a, b, c) and 'int' in (a, b, c) else 'thorough')
    u.harness('timestamp_laws', 'timestamp::Timestamp::ord_eq_hash')
    text = text.replace('//@GENERATED-OV@', '\n    '.join(gen_ov)).replace('//@GENERATED-HV@', '\n    '.join(gen_hv))
    u.append(REL, text)
    u.functions = [('OrderedFloat64::{eq,cmp,partial_cmp,hash}', REL), ('OrderableValue::{eq,cmp,partial_cmp,hash,type_ordinal}', REL),
                   ('HashableValue::{eq,hash,new}', REL), ('Timestamp derived {eq,cmp,hash}', 'crates/grafeo-common/src/types/timestamp.rs')]
    u.not_covered = ['String/Bytes/List/Map/Vector variants (heap + recursion)', 'bincode/JSON/spill/WAL serialisation round trips (external serializers, I/O traits)']
    u.assumptions = ['a recording Hasher stands for every Hasher: equal byte streams imply equal hashes; unequal streams are reported as disagreement']
    return u
