"""Unit BITVEC (C15): BitVector::{new, from_bools, get, set, push, len, is_empty} against the abstract view Seq<bool>."""
from vlib import Unit

SRC = 'crates/grafeo-core/src/storage/bitvec.rs'

TEMPLATE = r'''
use vstd::prelude::*;
verus! {

@@BitVector@@

pub open spec fn bit(w: u64, k: int) -> bool { (w >> (k as u64)) & 1 == 1 }
pub open spec fn bv_elem(data: Seq<u64>, i: int) -> bool { bit(data[i / 64], i % 64) }
pub open spec fn bv_view(data: Seq<u64>, len: usize) -> Seq<bool> { Seq::new(len as nat, |i: int| bv_elem(data, i)) }

proof fn lemma_test_bit(w: u64, k: u64)
    requires k < 64
    ensures ((w & (1u64 << k)) != 0) == bit(w, k as int)
{
    assert(k < 64 ==> (((w & (1u64 << k)) != 0) == ((w >> k) & 1 == 1))) by (bit_vector);
}
proof fn lemma_set_bit(w: u64, k: u64, j: u64)
    requires k < 64, j < 64
    ensures bit(w | (1u64 << k), j as int) == (j == k || bit(w, j as int))
{
    assert(k < 64 && j < 64 ==> ((((w | (1u64 << k)) >> j) & 1 == 1) == (j == k || ((w >> j) & 1 == 1)))) by (bit_vector);
}
proof fn lemma_clear_bit(w: u64, k: u64, j: u64)
    requires k < 64, j < 64
    ensures bit(w & !(1u64 << k), j as int) == (j != k && bit(w, j as int))
{
    assert(k < 64 && j < 64 ==> ((((w & !(1u64 << k)) >> j) & 1 == 1) == (j != k && ((w >> j) & 1 == 1)))) by (bit_vector);
}
proof fn lemma_full_bit(j: u64)
    requires j < 64
    ensures bit(u64::MAX, j as int)
{
    assert(j < 64 ==> ((0xffff_ffff_ffff_ffffu64 >> j) & 1 == 1)) by (bit_vector);
}
proof fn lemma_not_bit(w: u64, j: u64)
    requires j < 64
    ensures bit(!w, j as int) == !bit(w, j as int)
{
    assert(j < 64 ==> ((((!w) >> j) & 1 == 1) == !((w >> j) & 1 == 1))) by (bit_vector);
}
proof fn lemma_zero_bit(j: u64)
    requires j < 64
    ensures !bit(0u64, j as int)
{
    assert(j < 64 ==> !((0u64 >> j) & 1 == 1)) by (bit_vector);
}

impl BitVector {
    /// Representation invariant: enough words for `len` bits.
    pub open spec fn wf(&self) -> bool { self.data@.len() * 64 >= self.len }
    pub open spec fn view(&self) -> Seq<bool> { bv_view(self.data@, self.len) }

    @@BitVector::new@@

    @@BitVector::from_bools@@

    @@BitVector::len@@

    @@BitVector::is_empty@@

    @@BitVector::get@@

    @@BitVector::set@@

    @@BitVector::push@@

    @@BitVector::filled@@

    @@BitVector::zeros@@

    @@BitVector::ones@@

    @@BitVector::not@@

    @@BitVector::to_bools@@
}

// C15 over the contracts alone: a vector built by pushes reads back what was pushed, wherever it started from.
fn push_then_get(v: &mut BitVector, b: bool) -> (r: Option<bool>)
    requires old(v).wf(), old(v).len < usize::MAX,
    ensures r == Some(b), final(v).view() == old(v).view().push(b),
{
    let n = v.len();
    v.push(b);
    v.get(n)
}

fn from_bools_then_get(bools: &[bool], i: usize) -> (r: Option<bool>)
    requires bools@.len() + 63 <= usize::MAX,
    ensures i < bools@.len() ==> r == Some(bools@[i as int]), i >= bools@.len() ==> r is None,
{
    let v = BitVector::from_bools(bools);
    v.get(i)
}

} // verus!
fn main() {}
'''


def build(repo):
    u = Unit('bitvec', ['C15'], repo, TEMPLATE)
    u.item(SRC, 'struct', 'BitVector').D1(keep_derive=set()).V1()

    f = u.method(SRC, 'BitVector', 'new').D1().ret('r')
    f.ensures('empty', 'r.wf() && r.view() == Seq::<bool>::empty() && r.len == 0')
    f.before_tail('proof { assert(bv_view(Seq::<u64>::empty(), 0) =~= Seq::<bool>::empty()); }')

    f = u.method(SRC, 'BitVector', 'from_bools').D1().R3().ret('r')
    f.requires('len', 'bools@.len() + 63 <= usize::MAX')
    f.ensures('wf', 'r.wf()')
    f.ensures('view', 'r.view() == bools@')
    L = f.loop(0).kind('for')
    L.before('''proof {
    assert forall|j: int| 0 <= j < num_words * 64 implies !bv_elem(data@, j) by { lemma_zero_bit((j % 64) as u64); }
}''')
    L.invariants(
        ('words', 'data@.len() == num_words && num_words == (bools@.len() + 63) / 64'),
        ('written', 'forall|j: int| 0 <= j < i ==> bv_elem(data@, j) == bools@[j]'),
        ('untouched', 'forall|j: int| i <= j < num_words * 64 ==> !bv_elem(data@, j)'),
    )
    L.body_start('let ghost old_data = data@;')
    L.body_end('''proof {
    let wi = (i as int) / 64; let bi = ((i as int) % 64) as u64;
    assert forall|j: int| 0 <= j < num_words * 64 implies bv_elem(data@, j) == (if j == i { bools@[j] } else { bv_elem(old_data, j) }) by {
        if b && j / 64 == wi { lemma_set_bit(old_data[wi], bi, (j % 64) as u64); }
    }
}''')
    L.after('proof { assert(bv_view(data@, bools.len()) =~= bools@); }')

    f = u.method(SRC, 'BitVector', 'len').D1().ret('r')
    f.ensures('len', 'r == self.len')
    f = u.method(SRC, 'BitVector', 'is_empty').D1().ret('r')
    f.ensures('len', 'r == (self.len == 0)')

    f = u.method(SRC, 'BitVector', 'get').D1().ret('r')
    f.requires('wf', 'self.wf()')
    f.ensures('in_range', 'index < self.len ==> r == Some(self.view()[index as int])')
    f.ensures('out_of_range', 'index >= self.len ==> r is None')
    f.before('Some(', 'proof { lemma_test_bit(self.data@[word_idx as int], bit_idx as u64); }')

    f = u.method(SRC, 'BitVector', 'set').D1().D3()
    f.requires('wf', 'old(self).wf()')
    f.requires('in_range', 'index < old(self).len')
    f.ensures('wf', 'final(self).wf() && final(self).len == old(self).len')
    f.ensures('view', 'final(self).view() == old(self).view().update(index as int, value)')
    f.after('let bit_idx', 'let ghost old_data = self.data@;')
    f.body_end('''proof {
    let wi = word_idx as int; let bi = bit_idx as u64;
    assert forall|j: int| 0 <= j < self.len implies bv_elem(self.data@, j) == (if j == index { value } else { bv_elem(old_data, j) }) by {
        if j / 64 == wi {
            if value { lemma_set_bit(old_data[wi], bi, (j % 64) as u64); } else { lemma_clear_bit(old_data[wi], bi, (j % 64) as u64); }
        }
    }
    assert(bv_view(self.data@, self.len) =~= bv_view(old_data, self.len).update(index as int, value));
}''')

    f = u.method(SRC, 'BitVector', 'push').D1()
    f.requires('wf', 'old(self).wf()')
    f.requires('room', 'old(self).len < usize::MAX')
    f.ensures('wf', 'final(self).wf() && final(self).len == old(self).len + 1')
    f.ensures('view', 'final(self).view() == old(self).view().push(value)')
    f.after('let bit_idx', 'let ghost data0 = self.data@;')
    f.before('if value', '''let ghost data1 = self.data@;
proof {
    assert forall|j: int| 0 <= j < self.len implies bv_elem(data1, j) == bv_elem(data0, j) by { }
}''')
    f.before('self.len += 1', '''proof {
    let wi = word_idx as int; let bi = bit_idx as u64; let n = self.len as int;
    assert forall|j: int| 0 <= j < n implies bv_elem(self.data@, j) == bv_elem(data0, j) by {
        if j / 64 == wi {
            if value { lemma_set_bit(data1[wi], bi, (j % 64) as u64); } else { lemma_clear_bit(data1[wi], bi, (j % 64) as u64); }
        }
    }
    if value { lemma_set_bit(data1[wi], bi, bi); } else { lemma_clear_bit(data1[wi], bi, bi); }
    assert(bv_elem(self.data@, n) == value);
    assert(bv_view(self.data@, (self.len + 1) as usize) =~= bv_view(data0, self.len).push(value));
}''')

    f = u.method(SRC, 'BitVector', 'filled').D1().ret('r')
    f.requires('len', 'len + 63 <= usize::MAX')
    f.ensures('wf', 'r.wf() && r.len == len')
    f.ensures('view', 'r.view() == Seq::new(len as nat, |i: int| value)')
    f.before_tail('''proof {
    assert forall|j: int| 0 <= j < len implies bv_elem(data@, j) == value by {
        if value { lemma_full_bit((j % 64) as u64); } else { lemma_zero_bit((j % 64) as u64); }
    }
    assert(bv_view(data@, len) =~= Seq::new(len as nat, |i: int| value));
}''')
    f = u.method(SRC, 'BitVector', 'zeros').D1().ret('r')
    f.requires('len', 'len + 63 <= usize::MAX')
    f.ensures('view', 'r.wf() && r.len == len && r.view() == Seq::new(len as nat, |i: int| false)')
    f = u.method(SRC, 'BitVector', 'ones').D1().ret('r')
    f.requires('len', 'len + 63 <= usize::MAX')
    f.ensures('view', 'r.wf() && r.len == len && r.view() == Seq::new(len as nat, |i: int| true)')

    f = u.method(SRC, 'BitVector', 'not').D1().R17('data').ret('r')
    f.requires('wf', 'self.wf()')
    f.ensures('wf', 'r.wf() && r.len == self.len')
    f.ensures('view', 'r.view() == Seq::new(self.len as nat, |i: int| !self.view()[i])')
    L = f.loop(0).kind('for')
    L.invariants(('len', 'data@.len() == i__'), ('flipped', 'forall|k: int| 0 <= k < i__ ==> #[trigger] data@[k] == !self.data@[k]'))
    L.after('''proof {
    assert forall|j: int| 0 <= j < self.len implies bv_elem(data@, j) == !bv_elem(self.data@, j) by { lemma_not_bit(self.data@[j / 64], (j % 64) as u64); }
    assert(bv_view(data@, self.len) =~= Seq::new(self.len as nat, |i: int| !self.view()[i]));
}''')

    f = u.method(SRC, 'BitVector', 'to_bools').D1().R18('bool').ret('r')
    f.requires('wf', 'self.wf()')
    f.ensures('view', 'r@ == self.view()')
    L = f.loop(0).kind('for')
    L.invariants(('wf', 'self.wf()'), ('prefix', 'out__@.len() == i && forall|k: int| 0 <= k < i ==> #[trigger] out__@[k] == self.view()[k]'))
    L.after('proof { assert(out__@ =~= self.view()); }')
    u.not_covered += ['BitVector::{and, or, xor (zip/take adapter chains), count_ones, iter, ones_iter, zeros_iter}, to_bytes/from_bytes (Kani bounded)']
    return u
