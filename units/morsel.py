"""Unit MORSEL (C17): "morsel generation covers the source exactly once" - generate_morsels tiles [0, total_rows) for EVERY row count and EVERY
morsel size (including sizes larger than the input and usize::MAX), Morsel::split_at partitions a morsel, row_count / is_empty agree with the range."""
from vlib import Unit

SRC = 'crates/grafeo-core/src/execution/parallel/morsel.rs'

TEMPLATE = r'''
use vstd::prelude::*;
verus! {
global size_of usize == 8;

@@Morsel@@

pub open spec fn min_int(a: int, b: int) -> int { if a <= b { a } else { b } }
/// the rows of the source a morsel stands for
pub open spec fn has_row(m: Morsel, r: int) -> bool { m.start_row <= r < m.end_row }
/// morsel i is [i * size, min((i + 1) * size, total)), ids count from 0, nothing beyond the last row
pub open spec fn tiles(ms: Seq<Morsel>, total: int, size: int, src: usize) -> bool {
    &&& (total == 0 || size == 0) ==> ms.len() == 0
    &&& (total > 0 && size > 0) ==> {
        &&& ms.len() == (total + size - 1) / size
        &&& forall|i: int| 0 <= i < ms.len() ==> (#[trigger] ms[i]).id == i && ms[i].source_id == src && ms[i].start_row == i * size && ms[i].end_row == min_int((i + 1) * size, total)
    }
}

// R39 helper (VERIFIED, not assumed): the number of items `(0..n).step_by(s)` yields, and the k-th item k * s stays below n
fn step_count(n: usize, s: usize) -> (r: usize)
    requires s > 0
    ensures r == (n + s - 1) / (s as int), forall|k: int| 0 <= k < r ==> #[trigger] (k * s) < n
{
    if n == 0 { proof { assert((0 + s - 1) / (s as int) == 0) by (nonlinear_arith) requires s > 0; } 0 } else {
        let r = (n - 1) / s + 1;
        proof {
            assert((n - 1) / (s as int) + 1 == (n + s - 1) / (s as int)) by (nonlinear_arith) requires s > 0, n > 0;
            assert forall|k: int| 0 <= k < r implies #[trigger] (k * s) < n by {
                assert(k * s <= ((n - 1) / (s as int)) * s) by (nonlinear_arith) requires 0 <= k <= (n - 1) / (s as int), s > 0;
                assert(((n - 1) / (s as int)) * s <= n - 1) by (nonlinear_arith) requires s > 0, n > 0;
            }
        }
        r
    }
}

impl Morsel {
    @@Morsel::new@@
    @@Morsel::row_count@@
    @@Morsel::is_empty@@
    @@Morsel::split_at@@
}

@@generate_morsels@@

// ---- the C17 clause over the contract alone: every row of the source lies in exactly one morsel, no morsel is empty or reaches past the end ----
proof fn lemma_covers_exactly_once(ms: Seq<Morsel>, total: int, size: int, src: usize, row: int)
    requires tiles(ms, total, size, src), 0 <= row < total, size > 0
    ensures 0 <= row / size < ms.len(), has_row(ms[row / size], row),
        forall|j: int| 0 <= j < ms.len() && has_row(#[trigger] ms[j], row) ==> j == row / size
{
    let q = row / size;
    assert(q * size <= row < (q + 1) * size && q >= 0) by (nonlinear_arith) requires q == row / size, size > 0, row >= 0;
    assert(q < (total + size - 1) / size) by (nonlinear_arith) requires q * size <= row, row < total, size > 0, q >= 0;
    assert forall|j: int| 0 <= j < ms.len() && has_row(#[trigger] ms[j], row) implies j == q by {
        assert(j * size <= row && row < (j + 1) * size);
        assert(j == q) by (nonlinear_arith) requires j * size <= row, row < (j + 1) * size, q * size <= row, row < (q + 1) * size, size > 0;
    }
}
proof fn lemma_nothing_outside(ms: Seq<Morsel>, total: int, size: int, src: usize, j: int)
    requires tiles(ms, total, size, src), 0 <= j < ms.len(), size > 0, total > 0
    ensures ms[j].start_row < ms[j].end_row <= total, j + 1 < ms.len() ==> ms[j + 1].start_row == ms[j].end_row, j + 1 == ms.len() ==> ms[j].end_row == total, ms[0].start_row == 0
{
    assert(j * size < total) by (nonlinear_arith) requires 0 <= j < (total + size - 1) / size, size > 0, total > 0;
    assert((j + 1) * size == j * size + size) by (nonlinear_arith);
    if j + 1 < ms.len() { assert((j + 1) * size < total) by (nonlinear_arith) requires 0 <= j + 1 < (total + size - 1) / size, size > 0, total > 0; }
    else { assert((j + 1) * size >= total) by (nonlinear_arith) requires j + 1 == (total + size - 1) / size, size > 0, total > 0; }
    assert(0 * size == 0) by (nonlinear_arith);
}
// splitting keeps the rows: first ++ second == the morsel, disjoint
proof fn lemma_split_partitions(m: Morsel, a: Morsel, b: Morsel, r: int)
    requires a.start_row == m.start_row, a.end_row == b.start_row, b.end_row == m.end_row, m.start_row < a.end_row < m.end_row
    ensures has_row(m, r) <==> (has_row(a, r) || has_row(b, r)), !(has_row(a, r) && has_row(b, r))
{ }

} // verus!
fn main() {}
'''


def build(repo):
    u = Unit('morsel', ['C17'], repo, TEMPLATE)
    u.assume('usize is 64 bits (`global size_of usize == 8`)')
    u.assume('rule R39: `(0..n).step_by(s).enumerate()` yields (k, k * s) for k < ceil(n / s) (std StepBy<Range<usize>> specialisation); the helper step_count is verified')
    u.item(SRC, 'struct', 'Morsel').D1(keep_derive={'Clone', 'Copy'})
    f = u.method(SRC, 'Morsel', 'new').D1().ret('r')
    f.ensures('fields', 'r.id == id && r.source_id == source_id && r.start_row == start_row && r.end_row == end_row')
    f = u.method(SRC, 'Morsel', 'row_count').D1().ret('r')
    f.ensures('size_of_range', 'r == (if self.end_row >= self.start_row { self.end_row - self.start_row } else { 0 })')
    f = u.method(SRC, 'Morsel', 'is_empty').D1().ret('r')
    f.ensures('no_rows', 'r == (self.end_row <= self.start_row)')
    f = u.method(SRC, 'Morsel', 'split_at').D1().ret('r')
    f.requires('id_room', 'self.id < usize::MAX')           # the second half gets id + 1
    f.ensures('none_outside', 'r is None <==> !(0 < offset && self.start_row + offset < self.end_row)')
    f.ensures('partitions', 'r is Some ==> (r->0).0.start_row == self.start_row && (r->0).0.end_row == self.start_row + offset && (r->0).1.start_row == self.start_row + offset && (r->0).1.end_row == self.end_row'
              ' && (r->0).0.source_id == self.source_id && (r->0).1.source_id == self.source_id && (r->0).0.id == self.id && (r->0).1.id == self.id + 1')
    f = u.free_fn(SRC, 'generate_morsels').D1().R39().ret('r')
    f.resub('X1', r'let mut morsels = Vec::with_capacity\(', 'let mut morsels: Vec<Morsel> = Vec::with_capacity(')     # type ascription (the invariant mentions the vector before the first push)
    f.ensures('covers_the_source_exactly_once', 'tiles(r@, total_rows as int, morsel_size as int, source_id)')
    L = f.loop(0).kind('for')
    L.invariants(('bounds', 'morsels@.len() == id && total_rows > 0 && morsel_size > 0 && forall|k: int| 0 <= k < (total_rows + morsel_size - 1) / (morsel_size as int) ==> #[trigger] (k * morsel_size) < total_rows'),
                 ('tiles_prefix', 'forall|i: int| 0 <= i < id ==> (#[trigger] morsels@[i]).id == i && morsels@[i].source_id == source_id && morsels@[i].start_row == i * morsel_size && morsels@[i].end_row == min_int((i + 1) * morsel_size, total_rows as int)'))
    L.body_end('proof { assert((id + 1) * morsel_size == id * morsel_size + morsel_size) by (nonlinear_arith); }')
    u.not_covered += ['ParallelSource implementations (generate_morsels of each source delegates here or returns one morsel)', 'morsel scheduler / work stealing (threads)',
                      'compute_morsel_size_with_base (f64)', 'k-way merges over BinaryHeap<MergeEntry>, spill files, push operators']
    return u
