"""Unit TM (C02, C03, C04): TransactionManager::{commit, abort, begin_with_isolation, record_write, record_read, state, start_epoch}
extracted from crates/grafeo-engine/src/transaction/manager.rs with the lock layer dropped (rule E3, stated)."""
import re

from vlib import Unit

SRC = 'crates/grafeo-engine/src/transaction/manager.rs'
ID = 'crates/grafeo-common/src/types/id.rs'
ERR = 'crates/grafeo-common/src/utils/error.rs'

TEMPLATE = r'''
use vstd::prelude::*;
use std::collections::{HashMap, HashSet};
use std::hash::{Hash, BuildHasher};
use std::borrow::Borrow;
use std::alloc::Allocator;
use vstd::std_specs::hash::*;
verus! {
broadcast use vstd::std_specs::hash::group_hash_axioms;

@@TxId@@
@@EpochId@@
@@NodeId@@
@@EdgeId@@
impl EpochId {
    @@EpochId::new@@
    @@EpochId::as_u64@@
}
impl TxId {
    @@TxId::new@@
}
@@TxState@@
@@IsolationLevel@@
@@EntityId@@
@@TxInfo@@
@@TransactionError@@
// E1 stand-in: of grafeo_common::utils::error::Error only the variant these functions construct
pub enum Error { Transaction(TransactionError) }
pub type Result<T> = std::result::Result<T, Error>;

// ---- trusted items (each listed in the evidence) --------------------------------------------------
pub assume_specification[ <TxId as PartialEq>::eq ](a: &TxId, b: &TxId) -> (r: bool) ensures r == (*a == *b);
pub assume_specification[ <TxState as PartialEq>::eq ](a: &TxState, b: &TxState) -> (r: bool) ensures r == (*a == *b);
pub assume_specification[ <IsolationLevel as PartialEq>::eq ](a: &IsolationLevel, b: &IsolationLevel) -> (r: bool) ensures r == (*a == *b);
pub assume_specification<T: Clone, S: Clone, A: Allocator + Clone>[ <HashSet<T, S, A> as Clone>::clone ](s: &HashSet<T, S, A>) -> (r: HashSet<T, S, A>) ensures r@ == s@;
pub assume_specification<'a, K, V, S, A, Q>[ HashMap::<K, V, S, A>::get_mut::<Q> ](m: &'a mut HashMap<K, V, S, A>, k: &Q) -> (r: Option<&'a mut V>)
    where K: Eq + Hash + Borrow<Q>, Q: Hash + Eq + ?Sized, S: BuildHasher, A: Allocator
    ensures
        obeys_key_model::<K>() && builds_valid_hashers::<S>() ==> match r {
            Some(v) => contains_borrowed_key(old(m)@, k) && maps_borrowed_key_to_value(old(m)@, k, *v)
                && contains_borrowed_key(final(m)@, k) && maps_borrowed_key_to_value(final(m)@, k, *final(v))
                && (exists|mid: Map<K, V>| borrowed_key_removed(old(m)@, mid, k) && borrowed_key_removed(final(m)@, mid, k)),
            None => !contains_borrowed_key(old(m)@, k) && final(m)@ == old(m)@,
        }
;
// std: mem::take returns the old value (what it leaves behind - T::default() - is deliberately not specified)
pub assume_specification<T: Default>[ core::mem::take::<T> ](dest: &mut T) -> (r: T) ensures r == *old(dest);
#[verifier::external_body]
fn msg() -> String { String::new() }
// R32: the keys of a map, each exactly once (std: values_mut visits every entry once)
#[verifier::external_body] fn map_keys<V>(m: &HashMap<TxId, V>) -> (r: Vec<TxId>)
    ensures r@.no_duplicates(), forall|k: TxId| #[trigger] r@.contains(k) <==> m@.contains_key(k) { m.keys().copied().collect() }
pub proof fn axiom_keys()
    ensures obeys_key_model::<TxId>(), obeys_key_model::<EntityId>()
{ admit(); }

// E2: an atomic counter read-modify-write, sequentially
fn fetch_add_u64(a: &mut u64, v: u64) -> (old_v: u64)
    ensures old_v == *old(a), *final(a) == (if *old(a) + v > u64::MAX { (*old(a) + v - 0x1_0000_0000_0000_0000) as u64 } else { (*old(a) + v) as u64 })
{
    let o = *a;
    *a = o.wrapping_add(v);
    o
}
fn load_u64(a: &u64) -> (v: u64) ensures v == *a { *a }
// rule R8: the fold step of Iterator::min over EpochId (derived Ord on a u64 newtype compares the u64)
fn opt_min(a: Option<EpochId>, b: EpochId) -> (r: Option<EpochId>)
    ensures r is Some, (r->0).0 <= b.0, a is Some ==> (r->0).0 <= (a->0).0, r == Some(b) || r == a,
{
    match a { None => Some(b), Some(cur) => if b.as_u64() < cur.as_u64() { Some(b) } else { Some(cur) } }
}
// the same fold step for Iterator::max (used only if the source asks for a maximum)
fn opt_max(a: Option<EpochId>, b: EpochId) -> (r: Option<EpochId>)
    ensures r is Some, (r->0).0 >= b.0, a is Some ==> (r->0).0 >= (a->0).0, r == Some(b) || r == a,
{
    match a { None => Some(b), Some(cur) => if b.as_u64() > cur.as_u64() { Some(b) } else { Some(cur) } }
}

@@TransactionManager@@

// ---- specification: the property's own words ---------------------------------------------------
pub open spec fn meets(a: Set<EntityId>, b: Set<EntityId>) -> bool { exists|e: EntityId| a.contains(e) && b.contains(e) }

/// o is a committed transaction whose lifetime overlapped t's (it committed after t began) and that wrote something in `mine`
pub open spec fn overlaps_on(txs: Map<TxId, TxInfo>, ce: Map<TxId, EpochId>, t: TxId, o: TxId, mine: Set<EntityId>) -> bool {
    o != t && txs.contains_key(o) && ce.contains_key(o) && txs.contains_key(t) && ce[o].0 > txs[t].start_epoch.0 && meets(mine, txs[o].write_set@)
}

proof fn lemma_get_mut_effect(old_m: Map<TxId, TxInfo>, new_m: Map<TxId, TxInfo>, k: TxId)
    requires
        old_m.contains_key(k), new_m.contains_key(k),
        exists|mid: Map<TxId, TxInfo>| borrowed_key_removed(old_m, mid, &k) && borrowed_key_removed(new_m, mid, &k),
        obeys_key_model::<TxId>(),
    ensures
        new_m.dom() == old_m.dom(),
        forall|o: TxId| o != k && old_m.contains_key(o) ==> new_m[o] == old_m[o],
{
    let mid = choose|mid: Map<TxId, TxInfo>| borrowed_key_removed(old_m, mid, &k) && borrowed_key_removed(new_m, mid, &k);
    assert(mid == old_m.remove(k));
    assert(mid == new_m.remove(k));
    assert forall|kk: TxId| new_m.contains_key(kk) == old_m.contains_key(kk) by {
        if kk != k { assert(mid.contains_key(kk) == old_m.contains_key(kk)); assert(mid.contains_key(kk) == new_m.contains_key(kk)); }
    }
    assert(new_m.dom() =~= old_m.dom());
    assert forall|o: TxId| o != k && old_m.contains_key(o) implies new_m[o] == old_m[o] by {
        assert(mid[o] == old_m[o]); assert(mid[o] == new_m[o]);
    }
}

pub open spec fn active(txs: Map<TxId, TxInfo>, k: TxId) -> bool { txs.contains_key(k) && txs[k].state == TxState::Active }
/// gc may drop x: it is aborted, or it committed no later than every active transaction began (so it overlaps none of them)
pub open spec fn removable(txs: Map<TxId, TxInfo>, ce: Map<TxId, EpochId>, min: Option<EpochId>, x: TxId) -> bool {
    txs[x].state == TxState::Aborted
    || (txs[x].state == TxState::Committed && (min is None || (ce.contains_key(x) && ce[x].0 <= (min->0).0)))
}
/// commit epochs are recorded for committed transactions only (established by commit())
pub open spec fn tm_wf(txs: Map<TxId, TxInfo>, ce: Map<TxId, EpochId>) -> bool {
    forall|o: TxId| txs.contains_key(o) && ce.contains_key(o) ==> txs[o].state == TxState::Committed
}
/// What gc guarantees (its postconditions), as one predicate over the before/after views.
pub open spec fn gc_post(t0: Map<TxId, TxInfo>, c0: Map<TxId, EpochId>, t1: Map<TxId, TxInfo>, c1: Map<TxId, EpochId>) -> bool {
    &&& forall|k: TxId| t1.contains_key(k) ==> t0.contains_key(k) && t1[k] == t0[k]
    &&& forall|k: TxId| c1.contains_key(k) ==> c0.contains_key(k) && c1[k] == c0[k]
    &&& forall|k: TxId| c0.contains_key(k) && t1.contains_key(k) ==> c1.contains_key(k)
    &&& forall|t: TxId| t0.contains_key(t) && t0[t].state == TxState::Active ==> t1.contains_key(t)
    &&& forall|t: TxId, o: TxId| t0.contains_key(t) && t0[t].state == TxState::Active && t0.contains_key(o) && t0[o].state == TxState::Committed
            && c0.contains_key(o) && c0[o].0 > t0[t].start_epoch.0 ==> #[trigger] t1.contains_key(o) || !#[trigger] t0.contains_key(t)
}
/// C03 "cleaning up finished transactions never changes which commits are accepted": for every transaction still active,
/// the set of overlapping committed writers that commit() looks for is the same before and after gc.
proof fn lemma_gc_preserves_conflicts(t0: Map<TxId, TxInfo>, c0: Map<TxId, EpochId>, t1: Map<TxId, TxInfo>, c1: Map<TxId, EpochId>, t: TxId, o: TxId, mine: Set<EntityId>)
    requires gc_post(t0, c0, t1, c1), tm_wf(t0, c0), t0.contains_key(t), t0[t].state == TxState::Active,
    ensures overlaps_on(t0, c0, t, o, mine) == overlaps_on(t1, c1, t, o, mine),
{
    if overlaps_on(t0, c0, t, o, mine) {
        assert(t0[o].state == TxState::Committed);
        assert(t1.contains_key(o) || !t0.contains_key(t));
        assert(t1.contains_key(t));
        assert(c1.contains_key(o));
    }
    if overlaps_on(t1, c1, t, o, mine) {
        assert(t0.contains_key(o) && t1[o] == t0[o]);
        assert(c0.contains_key(o) && c1[o] == c0[o]);
        assert(t1[t] == t0[t]);
    }
}

impl TxInfo {
    @@TxInfo::new@@
}

impl TransactionManager {
    @@TransactionManager::begin_with_isolation@@

    @@TransactionManager::commit@@

    @@TransactionManager::abort@@

    @@TransactionManager::record_write@@

    @@TransactionManager::record_read@@

    @@TransactionManager::gc@@

    @@TransactionManager::current_epoch@@

    @@TransactionManager::min_active_epoch@@

    @@TransactionManager::mark_committed@@

    @@TransactionManager::last_assigned_tx_id@@

    @@TransactionManager::abort_all_active@@
}

// ---- C03 over the contracts alone (callers see only callee contracts) -------------------------------
/// Two transactions whose lifetimes overlap both write entity e: they cannot both commit (first committer wins).
fn scenario_overlapping_writers(m: &mut TransactionManager, e: EntityId, i1: IsolationLevel, i2: IsolationLevel) -> (both: bool)
    requires old(m).next_tx_id < u64::MAX - 2, old(m).current_epoch < u64::MAX - 4,
    ensures !both,
{
    let t1 = m.begin_with_isolation(i1);
    let t2 = m.begin_with_isolation(i2);
    let w1 = m.record_write(t1, e);
    let w2 = m.record_write(t2, e);
    assert(w1 is Ok && w2 is Ok);
    let ghost e0 = m.current_epoch;
    let c1 = m.commit(t1);
    let ghost T = m.transactions@;
    let ghost C = m.committed_epochs@;
    let c2 = m.commit(t2);
    proof {
        if c1 is Ok {
            assert(T[t1].write_set@.contains(e) && T[t2].write_set@.contains(e));
            assert(meets(T[t2].write_set@, T[t1].write_set@));
            assert(C[t1].0 == e0 + 1 && T[t2].start_epoch.0 == e0);
            assert(overlaps_on(T, C, t2, t1, T[t2].write_set@));
        }
    }
    c1.is_ok() && c2.is_ok()
}

/// A writer that committed BEFORE the next transaction began is never the reason for a write conflict:
/// if t2 is refused with WriteConflict, some transaction other than t1 overlapped it.
fn scenario_sequential_writers(m: &mut TransactionManager, e: EntityId) -> (r: (bool, TxId))
    requires old(m).next_tx_id < u64::MAX - 2, old(m).current_epoch < u64::MAX - 4,
    ensures r.0 ==> exists|o: TxId| o != r.1 && r.1.0 == old(m).next_tx_id && #[trigger] final(m).transactions@.contains_key(o) && final(m).committed_epochs@.contains_key(o)
                && final(m).committed_epochs@[o].0 > old(m).current_epoch + 1,
{
    let t1 = m.begin_with_isolation(IsolationLevel::SnapshotIsolation);
    let w1 = m.record_write(t1, e);
    let c1 = m.commit(t1);
    let t2 = m.begin_with_isolation(IsolationLevel::SnapshotIsolation);
    let w2 = m.record_write(t2, e);
    let ghost T = m.transactions@;
    let ghost C = m.committed_epochs@;
    let c2 = m.commit(t2);
    let conflict = match c2 { Err(Error::Transaction(TransactionError::WriteConflict(_))) => true, _ => false };
    let both = conflict && c1.is_ok();
    proof {
        if both {
            let o = choose|o: TxId| overlaps_on(T, C, t2, o, T[t2].write_set@);
            // t1 committed at an epoch <= t2's start epoch, so it is not the overlapping writer
            assert(C[t1].0 <= T[t2].start_epoch.0);
            assert(o != t1);
            assert(m.transactions@.contains_key(o) && m.committed_epochs@.contains_key(o));
        }
    }
    (both, t1)
}

/// C04 over the contracts alone: the write-skew shape. T1 and T2 (Serializable) both read A and B from the same snapshot;
/// T2 writes B and commits first; T1 then writes A: T1's commit must be refused.
fn scenario_write_skew(m: &mut TransactionManager, a: EntityId, b: EntityId) -> (r: (bool, bool))
    requires old(m).next_tx_id < u64::MAX - 2, old(m).current_epoch < u64::MAX - 4,
    ensures r.0 ==> !r.1,      // if T2 committed, T1 did not
{
    let t1 = m.begin_with_isolation(IsolationLevel::Serializable);
    let t2 = m.begin_with_isolation(IsolationLevel::Serializable);
    let r1 = m.record_read(t1, a);
    let r2 = m.record_read(t1, b);
    let r3 = m.record_read(t2, a);
    let r4 = m.record_read(t2, b);
    let w2 = m.record_write(t2, b);
    assert(r1 is Ok && r2 is Ok && r3 is Ok && r4 is Ok && w2 is Ok);
    let ghost e0 = m.current_epoch;
    let c2 = m.commit(t2);
    let w1 = m.record_write(t1, a);
    let ghost T = m.transactions@;
    let ghost C = m.committed_epochs@;
    let c1 = m.commit(t1);
    proof {
        if c2 is Ok {
            assert(w1 is Ok);
            assert(T[t1].read_set@.contains(b) && T[t2].write_set@.contains(b));
            assert(meets(T[t1].read_set@, T[t2].write_set@));
            assert(C[t2].0 == e0 + 1 && T[t1].start_epoch.0 == e0);
            assert(T[t1].isolation_level == IsolationLevel::Serializable);
            assert(overlaps_on(T, C, t1, t2, T[t1].read_set@));
        }
    }
    (c2.is_ok(), c1.is_ok())
}

/// C20 over the contracts alone (sequentially): identifiers handed out by begin are pairwise distinct and commit epochs increase.
fn scenario_fresh_ids_and_epochs(m: &mut TransactionManager) -> (r: (TxId, TxId))
    requires old(m).next_tx_id < u64::MAX - 2, old(m).current_epoch < u64::MAX - 4,
    ensures r.0 != r.1,
{
    let t1 = m.begin_with_isolation(IsolationLevel::SnapshotIsolation);
    let t2 = m.begin_with_isolation(IsolationLevel::ReadCommitted);
    let c1 = m.commit(t1);
    let c2 = m.commit(t2);
    proof {
        if c1 is Ok && c2 is Ok { assert(c2->Ok_0.0 == c1->Ok_0.0 + 1); }
    }
    (t1, t2)
}

} // verus!
fn main() {}
'''

OUTER_TX = lambda ws, extra: [   # noqa: E731  (loops over self.transactions)
    ('keys', 'obeys_key_model::<TxId>() && obeys_key_model::<EntityId>()'),
    ('frame', 'self.transactions@ == T0 && self.committed_epochs@ == C0 && self.current_epoch == old(self).current_epoch && T0 == old(self).transactions@ && C0 == old(self).committed_epochs@'),
    ('ours', 'T0.contains_key(tx_id) && T0[tx_id].state == TxState::Active && our_start_epoch == T0[tx_id].start_epoch && %s@ == T0[tx_id].%s@' % (ws, 'write_set' if 'write' in ws else 'read_set')),
    ('seen_sound', 'forall|i: int| 0 <= i < it.seq().len() ==> T0.contains_key(*(#[trigger] it.seq()[i]).0) && T0[*it.seq()[i].0] == *it.seq()[i].1'),
] + extra

OUTER_CE = lambda ws, extra: [   # noqa: E731  (loops over self.committed_epochs)
    ('keys', 'obeys_key_model::<TxId>() && obeys_key_model::<EntityId>()'),
    ('frame', 'self.transactions@ == T0 && self.committed_epochs@ == C0 && self.current_epoch == old(self).current_epoch && T0 == old(self).transactions@ && C0 == old(self).committed_epochs@'),
    ('ours', 'T0.contains_key(tx_id) && T0[tx_id].state == TxState::Active && our_start_epoch == T0[tx_id].start_epoch && our_isolation == T0[tx_id].isolation_level'
             ' && our_write_set@ == T0[tx_id].write_set@ && our_read_set@ == T0[tx_id].read_set@'),
    ('seen_sound', 'forall|i: int| 0 <= i < it.seq().len() ==> C0.contains_key(*(#[trigger] it.seq()[i]).0) && C0[*it.seq()[i].0] == *it.seq()[i].1'),
    ('seen_complete', 'forall|kk: TxId| C0.contains_key(kk) ==> exists|i: int| 0 <= i < it.seq().len() && *it.seq()[i].0 == kk'),
    ('no_overlap_so_far', 'forall|i: int| 0 <= i < it.index@ ==> !(#[trigger] overlaps_on(T0, C0, tx_id, *it.seq()[i].0, %s@))' % ws),
] + extra


def INNER(ws, extra=()):
    return [
        ('keys', 'obeys_key_model::<TxId>() && obeys_key_model::<EntityId>()'),
        ('frame', 'self.transactions@ == T0 && self.committed_epochs@ == C0 && self.current_epoch == old(self).current_epoch && T0 == old(self).transactions@ && C0 == old(self).committed_epochs@'),
        ('other', '*other_tx != tx_id && T0.contains_key(*other_tx) && T0[*other_tx] == *other_info && T0.contains_key(tx_id)'),
        ('ours', '%s@ == T0[tx_id].%s@ && our_start_epoch == T0[tx_id].start_epoch' % (ws, 'write_set' if 'write' in ws else 'read_set')),
        ('none_so_far', 'forall|j: int| 0 <= j < it2.index@ ==> !other_info.write_set@.contains(*#[trigger] it2.seq()[j])'),
        ('covers', 'forall|e: EntityId| %s@.contains(e) ==> exists|j: int| 0 <= j < it2.seq().len() && *it2.seq()[j] == e' % ws),
    ] + list(extra)


def NOT_MEETS(ws):
    return '''proof {
    assert(!meets(%s@, other_info.write_set@)) by {
        if meets(%s@, other_info.write_set@) {
            let e = choose|e: EntityId| %s@.contains(e) && other_info.write_set@.contains(e);
        }
    }
}''' % (ws, ws, ws)


def build(repo):
    u = Unit('tm', ['C02', 'C03', 'C04'], repo, TEMPLATE, features=['allocator_api'], edition2024=True)
    kd = {'Clone', 'Copy', 'PartialEq', 'Eq', 'Hash'}
    for n in ('TxId', 'EpochId', 'NodeId', 'EdgeId'):
        u.item(ID, 'struct', n).D1(keep_derive=kd)
    u.method(ID, 'EpochId', 'new').D1().ret('r').ensures('field', 'r.0 == id')
    u.method(ID, 'EpochId', 'as_u64').D1().ret('r').ensures('field', 'r == self.0')
    u.method(ID, 'TxId', 'new').D1().ret('r').ensures('field', 'r.0 == id')
    u.item(SRC, 'enum', 'TxState').D1(keep_derive={'Clone', 'Copy', 'PartialEq', 'Eq'})
    u.item(SRC, 'enum', 'IsolationLevel').D1(keep_derive={'Clone', 'Copy', 'PartialEq', 'Eq'})
    u.item(SRC, 'enum', 'EntityId').D1(keep_derive=kd)
    u.item(SRC, 'struct', 'TxInfo').D1(keep_derive=set())
    u.item(ERR, 'enum', 'TransactionError').D1(keep_derive=set())
    tm = u.item(SRC, 'struct', 'TransactionManager').D1(keep_derive=set()).V1()
    tm.sub('E2', 'next_tx_id: AtomicU64,', 'next_tx_id: u64,')
    tm.sub('E2', 'current_epoch: AtomicU64,', 'current_epoch: u64,')
    tm.sub('E3', 'transactions: RwLock<FxHashMap<TxId, TxInfo>>,', 'transactions: HashMap<TxId, TxInfo>,')
    tm.sub('E3', 'committed_epochs: RwLock<FxHashMap<TxId, EpochId>>,', 'committed_epochs: HashMap<TxId, EpochId>,')

    for what, why in [
        ('assume_specification <TxId as PartialEq>::eq', 'derived PartialEq on a u64 newtype is structural'),
        ('assume_specification <TxState as PartialEq>::eq', 'derived PartialEq on a field-less enum is structural'),
        ('assume_specification <IsolationLevel as PartialEq>::eq', 'derived PartialEq on a field-less enum is structural'),
        ('assume_specification HashSet::clone', 'std: clone of a HashSet has the same elements (vstd has no spec for it)'),
        ('assume_specification HashMap::get_mut', 'std: get_mut returns the value stored under the key and changes nothing else (vstd has no spec for it); phrased with vstd\'s borrowed-key predicates'),
        ('external_body msg()', 'rule R4: error message strings are opaque'),
        ('assume_specification core::mem::take', 'std: returns the old value; the value left behind is not specified (as in unit ADJLIST)'),
        ('admit() in axiom_keys', 'derived Hash/Eq of TxId and EntityId are lawful (obeys_key_model), i.e. std HashMap/HashSet behave as maps/sets for these keys'),
    ]:
        u.trust(what, why)
    u.assume('E3: each method is one critical section; parking_lot guards dropped, so interleavings are NOT covered (sequential contract only)')
    u.assume('E1: FxHashMap/FxHashSet replaced by std HashMap/HashSet (same API; map/set semantics assumed)')
    u.assume('callers record reads/writes via record_read/record_write: today no operator does (write sets of session transactions are empty) - caller history is outside reach')

    f = u.method(SRC, 'TxInfo', 'new').D1().ret('r')
    f.ensures('fields', 'r.state == TxState::Active && r.isolation_level == isolation_level && r.start_epoch == start_epoch'
              ' && r.write_set@ == Set::<EntityId>::empty() && r.read_set@ == Set::<EntityId>::empty()')

    # ---- begin_with_isolation --------------------------------------------------------------------
    f = u.method(SRC, 'TransactionManager', 'begin_with_isolation').D1().ret('tx_id')
    f.sub('E3', 'pub fn begin_with_isolation(&self,', 'pub fn begin_with_isolation(&mut self,')
    f.sub('E2', 'self.next_tx_id.fetch_add(1, Ordering::Relaxed)', 'fetch_add_u64(&mut self.next_tx_id, 1)')
    f.sub('E2', 'self.current_epoch.load(Ordering::Acquire)', 'load_u64(&self.current_epoch)')
    f.sub('E3', 'self.transactions.write().insert(', 'self.transactions.insert(')
    f.requires('ids_left', 'old(self).next_tx_id < u64::MAX')
    f.ensures('fresh_id', 'tx_id.0 == old(self).next_tx_id && final(self).next_tx_id == old(self).next_tx_id + 1', ['C20', 'C03'])
    f.ensures('snapshot', 'final(self).transactions@.contains_key(tx_id) && final(self).transactions@[tx_id].state == TxState::Active'
              ' && final(self).transactions@[tx_id].start_epoch.0 == old(self).current_epoch && final(self).transactions@[tx_id].isolation_level == isolation_level'
              ' && final(self).transactions@[tx_id].write_set@ == Set::<EntityId>::empty() && final(self).transactions@[tx_id].read_set@ == Set::<EntityId>::empty()')
    f.ensures('frame', 'final(self).current_epoch == old(self).current_epoch && final(self).committed_epochs@ == old(self).committed_epochs@'
              ' && final(self).transactions@.dom() == old(self).transactions@.dom().insert(tx_id)'
              ' && forall|o: TxId| o != tx_id && old(self).transactions@.contains_key(o) ==> final(self).transactions@[o] == old(self).transactions@[o]')
    f.body_start('proof { axiom_keys(); }')

    # ---- commit ------------------------------------------------------------------------------------
    f = u.method(SRC, 'TransactionManager', 'commit').D1().ret('res')
    f.sub('E3', '    let mut txns = self.transactions.write();\n', '')
    f.sub('E3', '    let committed = self.committed_epochs.read();\n', '')
    f.resub_opt('E3', re.escape('    drop(committed);\n'), '')
    f.resub('E3', r'\btxns\b', 'self.transactions')
    f.resub('E3', r'\bcommitted\b(?!_)', 'self.committed_epochs')
    f.resub_opt('E3', re.escape('self.committed_epochs.write().insert('), 'self.committed_epochs.insert(')
    f.sub('E3', 'pub fn commit(&self,', 'pub fn commit(&mut self,')
    f.resub_opt('E2', re.escape('self.current_epoch.fetch_add(1, Ordering::SeqCst)'), 'fetch_add_u64(&mut self.current_epoch, 1)')
    f.R4().R2(['our_write_set', 'our_read_set']).R6().R5()
    T0 = 'old(self).transactions@'
    C0 = 'old(self).committed_epochs@'
    f.requires('epoch_room', 'old(self).current_epoch < u64::MAX - 1')
    f.ensures('err_changes_nothing', 'res is Err ==> final(self).transactions@ == %s && final(self).committed_epochs@ == %s && final(self).current_epoch == old(self).current_epoch' % (T0, C0), ['C02', 'C03', 'C04'])
    f.ensures('no_lost_update', '(exists|o: TxId| overlaps_on(%s, %s, tx_id, o, %s[tx_id].write_set@)) ==> res is Err' % (T0, C0, T0), ['C03'])
    f.ensures('never_refused_non_overlapping', '(res matches Err(Error::Transaction(TransactionError::WriteConflict(_)))) ==> exists|o: TxId| overlaps_on(%s, %s, tx_id, o, %s[tx_id].write_set@)' % (T0, C0, T0), ['C03'])
    f.ensures('ssi_refuses', '(%s.contains_key(tx_id) && %s[tx_id].isolation_level == IsolationLevel::Serializable && exists|o: TxId| overlaps_on(%s, %s, tx_id, o, %s[tx_id].read_set@)) ==> res is Err' % (T0, T0, T0, C0, T0), ['C04'])
    f.ensures('ssi_only_then', '(res matches Err(Error::Transaction(TransactionError::SerializationFailure(_)))) ==> %s[tx_id].isolation_level == IsolationLevel::Serializable && exists|o: TxId| overlaps_on(%s, %s, tx_id, o, %s[tx_id].read_set@)' % (T0, T0, C0, T0), ['C04'])
    f.ensures('ok_state', '''res is Ok ==> {
                &&& old(self).transactions@.contains_key(tx_id)
                &&& old(self).transactions@[tx_id].state == TxState::Active
                &&& res->Ok_0.0 == old(self).current_epoch + 1
                &&& final(self).current_epoch == old(self).current_epoch + 1
                &&& final(self).committed_epochs@ == old(self).committed_epochs@.insert(tx_id, res->Ok_0)
                &&& final(self).transactions@.dom() == old(self).transactions@.dom()
                &&& final(self).transactions@[tx_id].state == TxState::Committed
                &&& final(self).transactions@[tx_id].write_set@ == old(self).transactions@[tx_id].write_set@
                &&& final(self).transactions@[tx_id].start_epoch == old(self).transactions@[tx_id].start_epoch
                &&& forall|o: TxId| o != tx_id && old(self).transactions@.contains_key(o) ==> final(self).transactions@[o] == old(self).transactions@[o]
            }''', ['C02', 'C03', 'C20'])
    f.ensures('ids_untouched', 'final(self).next_tx_id == old(self).next_tx_id', ['C20', 'C03'])
    f.body_start('proof { axiom_keys(); }')
    f.insert_inline('ok_or_else(||', ' -> (e: Error) ensures e matches Error::Transaction(TransactionError::InvalidState(_))')
    # loops, in textual order: 0 outer(transactions) 1 inner(ws) | 2 outer(committed) 3 inner(ws) | 4 outer(committed) 5 inner(rs) | 6 outer(transactions) 7 inner(rs)
    f.loop(0).props('C03').kind('for').iter('it').before('let ghost T0 = old(self).transactions@;\nlet ghost C0 = old(self).committed_epochs@;').invariants(*OUTER_TX('our_write_set', [
        ('seen_complete', 'forall|kk: TxId| T0.contains_key(kk) ==> exists|i: int| 0 <= i < it.seq().len() && *it.seq()[i].0 == kk'),
        ('no_overlap_so_far', 'forall|i: int| 0 <= i < it.index@ ==> !(#[trigger] overlaps_on(T0, C0, tx_id, *it.seq()[i].0, our_write_set@) && T0[*it.seq()[i].0].state == TxState::Committed)'),
    ]))
    hint_w = 'proof { if other_info.write_set@.contains(*entity) { assert(meets(our_write_set@, other_info.write_set@)); assert(overlaps_on(T0, C0, tx_id, *other_tx, our_write_set@)); } }'
    hint_r = 'proof { if other_info.write_set@.contains(*entity) { assert(meets(our_read_set@, other_info.write_set@)); assert(overlaps_on(T0, C0, tx_id, *other_tx, our_read_set@)); } }'
    overl = ('overlapping', 'C0.contains_key(*other_tx) && C0[*other_tx].0 > T0[tx_id].start_epoch.0')
    f.loop(1).props('C03').kind('for').iter('it2').invariants(*INNER('our_write_set', [overl])).body_start(hint_w).after(NOT_MEETS('our_write_set'))
    f.loop(2).props('C03').kind('for').iter('it').invariants(*OUTER_CE('our_write_set', []))
    f.loop(3).props('C03').kind('for').iter('it2').invariants(*INNER('our_write_set', [overl])).body_start(hint_w).after(NOT_MEETS('our_write_set'))
    f.loop(2).after('proof { assert forall|o: TxId| !overlaps_on(T0, C0, tx_id, o, our_write_set@) by { if C0.contains_key(o) { } } }')
    f.loop(4).props('C04').kind('for').iter('it').invariants(*OUTER_CE('our_read_set', [('serializable', 'our_isolation == IsolationLevel::Serializable')]))
    f.loop(5).props('C04').kind('for').iter('it2').invariants(*INNER('our_read_set', [overl, ('serializable', 'T0[tx_id].isolation_level == IsolationLevel::Serializable')])).body_start(hint_r).after(NOT_MEETS('our_read_set'))
    f.loop(4).after('proof { assert forall|o: TxId| !overlaps_on(T0, C0, tx_id, o, our_read_set@) by { if C0.contains_key(o) { } } }')
    f.loop(6).props('C04').kind('for').iter('it').invariants(*OUTER_TX('our_read_set', [('serializable', 'T0[tx_id].isolation_level == IsolationLevel::Serializable')]))
    f.loop(7).props('C04').kind('for').iter('it2').invariants(
        ('keys', 'obeys_key_model::<TxId>() && obeys_key_model::<EntityId>()'),
        ('frame', 'self.transactions@ == T0 && self.committed_epochs@ == C0 && self.current_epoch == old(self).current_epoch && T0 == old(self).transactions@ && C0 == old(self).committed_epochs@'),
        ('other', '*other_tx != tx_id && T0.contains_key(*other_tx) && T0[*other_tx] == *other_info && T0.contains_key(tx_id)'),
        ('ours', 'our_read_set@ == T0[tx_id].read_set@ && our_start_epoch == T0[tx_id].start_epoch && T0[tx_id].isolation_level == IsolationLevel::Serializable'),
        ('elems', 'it2.seq().unref().to_set() == our_read_set@'),
    ).body_start('''proof {
    assert(our_read_set@.contains(*entity));
    if other_info.write_set@.contains(*entity) && C0.contains_key(*other_tx) && C0[*other_tx].0 > T0[tx_id].start_epoch.0 {
        assert(meets(our_read_set@, other_info.write_set@)); assert(overlaps_on(T0, C0, tx_id, *other_tx, our_read_set@));
    }
}''')
    f.before_tail('proof { lemma_get_mut_effect(T0, self.transactions@, tx_id); }')

    # ---- abort -------------------------------------------------------------------------------------
    f = u.method(SRC, 'TransactionManager', 'abort').D1().ret('res')
    f.sub('E3', '    let mut txns = self.transactions.write();\n', '')
    f.resub('E3', r'\btxns\b', 'self.transactions')
    f.sub('E3', 'pub fn abort(&self,', 'pub fn abort(&mut self,')
    f.R4()
    f.ensures('ok_state', '''res is Ok ==> {
                &&& old(self).transactions@.contains_key(tx_id) && old(self).transactions@[tx_id].state == TxState::Active
                &&& final(self).transactions@.dom() == old(self).transactions@.dom()
                &&& final(self).transactions@[tx_id].state == TxState::Aborted
                &&& forall|o: TxId| o != tx_id && old(self).transactions@.contains_key(o) ==> final(self).transactions@[o] == old(self).transactions@[o]
            }''', ['C02'])
    f.ensures('err_changes_nothing', 'res is Err ==> final(self).transactions@.dom() == old(self).transactions@.dom()'
              ' && forall|o: TxId| old(self).transactions@.contains_key(o) ==> final(self).transactions@[o].state == old(self).transactions@[o].state', ['C02'])
    f.ensures('frame', 'final(self).committed_epochs@ == old(self).committed_epochs@ && final(self).current_epoch == old(self).current_epoch && final(self).next_tx_id == old(self).next_tx_id', ['C02'])
    f.ensures('never_commits', 'forall|o: TxId| final(self).transactions@.contains_key(o) && final(self).transactions@[o].state == TxState::Committed ==> old(self).transactions@.contains_key(o) && old(self).transactions@[o].state == TxState::Committed', ['C02'])
    f.body_start('proof { axiom_keys(); }\nlet ghost T0 = old(self).transactions@;')
    f.before('return Err', 'proof { lemma_get_mut_effect(T0, self.transactions@, tx_id); }')
    f.before_tail('proof { lemma_get_mut_effect(T0, self.transactions@, tx_id); }')

    # ---- record_write / record_read ------------------------------------------------------------------
    for name, fld, other in (('record_write', 'write_set', 'read_set'), ('record_read', 'read_set', 'write_set')):
        f = u.method(SRC, 'TransactionManager', name).D1().ret('res')
        f.sub('E3', '    let mut txns = self.transactions.write();\n', '')
        f.resub('E3', r'\btxns\b', 'self.transactions')
        f.sub('E3', 'pub fn %s(&self,' % name, 'pub fn %s(&mut self,' % name)
        # `impl Into<EntityId>`: Into<T> for T is the identity and From<NodeId>/From<EdgeId> are one-line constructors; the conversion is moved to the caller
        f.sub('X1', 'entity: impl Into<EntityId>', 'entity: EntityId')
        f.sub('X1', 'entity.into()', 'entity')
        f.R4()
        f.ensures('ok_grows_exactly', '''res is Ok ==> {
                &&& old(self).transactions@.contains_key(tx_id) && old(self).transactions@[tx_id].state == TxState::Active
                &&& final(self).transactions@.dom() == old(self).transactions@.dom()
                &&& final(self).transactions@[tx_id].%s@ == old(self).transactions@[tx_id].%s@.insert(entity)
                &&& final(self).transactions@[tx_id].%s@ == old(self).transactions@[tx_id].%s@
                &&& final(self).transactions@[tx_id].state == TxState::Active
                &&& final(self).transactions@[tx_id].start_epoch == old(self).transactions@[tx_id].start_epoch
                &&& final(self).transactions@[tx_id].isolation_level == old(self).transactions@[tx_id].isolation_level
                &&& forall|o: TxId| o != tx_id && old(self).transactions@.contains_key(o) ==> final(self).transactions@[o] == old(self).transactions@[o]
            }''' % (fld, fld, other, other), ['C03', 'C04'])
        f.ensures('err_not_active', 'res is Err ==> !(old(self).transactions@.contains_key(tx_id) && old(self).transactions@[tx_id].state == TxState::Active)', ['C03', 'C04'])
        f.ensures('err_changes_nothing', 'res is Err ==> final(self).transactions@.dom() == old(self).transactions@.dom()'
                  ' && forall|o: TxId| old(self).transactions@.contains_key(o) ==> final(self).transactions@[o].state == old(self).transactions@[o].state'
                  ' && final(self).transactions@[o].write_set@ == old(self).transactions@[o].write_set@ && final(self).transactions@[o].read_set@ == old(self).transactions@[o].read_set@', ['C03', 'C04'])
        f.ensures('frame', 'final(self).committed_epochs@ == old(self).committed_epochs@ && final(self).current_epoch == old(self).current_epoch && final(self).next_tx_id == old(self).next_tx_id')
        f.body_start('proof { axiom_keys(); }\nlet ghost T0 = old(self).transactions@;')
        f.before('return Err', 'proof { lemma_get_mut_effect(T0, self.transactions@, tx_id); }')
        f.before_tail('proof { lemma_get_mut_effect(T0, self.transactions@, tx_id); }')

    # ---- gc ("cleaning up finished transactions never changes which commits are accepted") ------------
    f = u.method(SRC, 'TransactionManager', 'gc').D1().ret('n').props('C03', 'C04')
    f.sub('E3', '    let mut txns = self.transactions.write();\n', '')
    f.sub('E3', '    let mut committed = self.committed_epochs.write();\n', '')
    f.resub('E3', r'\btxns\b', 'self.transactions')
    f.resub('E3', r'\bcommitted\b(?!_)', 'self.committed_epochs')
    f.sub('E3', 'pub fn gc(&self)', 'pub fn gc(&mut self)')
    f.R8('min_active_start', ty='Option<EpochId>').R9('to_remove')
    f.ensures('cleanup_safe', 'gc_post(old(self).transactions@, old(self).committed_epochs@, final(self).transactions@, final(self).committed_epochs@)', ['C03', 'C04'])
    f.ensures('frame', 'final(self).current_epoch == old(self).current_epoch && final(self).next_tx_id == old(self).next_tx_id', ['C03', 'C20'])
    f.ensures('count', 'n == old(self).transactions@.len() - final(self).transactions@.len()', ['C03'])
    FRAME = 'self.transactions@ == T0 && self.committed_epochs@ == C0 && T0 == old(self).transactions@ && C0 == old(self).committed_epochs@ && self.current_epoch == old(self).current_epoch && self.next_tx_id == old(self).next_tx_id'
    SEEN = [('seen_sound', 'forall|i: int| 0 <= i < it.seq().len() ==> T0.contains_key(*(#[trigger] it.seq()[i]).0) && T0[*it.seq()[i].0] == *it.seq()[i].1'),
            ('seen_complete', 'forall|kk: TxId| T0.contains_key(kk) ==> exists|i: int| 0 <= i < it.seq().len() && *it.seq()[i].0 == kk')]
    f.body_start('proof { axiom_keys(); }\nlet ghost T0 = old(self).transactions@;\nlet ghost C0 = old(self).committed_epochs@;')
    L0 = f.loop(0).kind('for').iter('it').props('C03', 'C04')
    L0.invariants(('keys', 'obeys_key_model::<TxId>() && obeys_key_model::<EntityId>()'), ('frame', FRAME), *SEEN)
    L0.invariant('lower_bound', 'forall|i: int| 0 <= i < it.index@ ==> (#[trigger] active(T0, *it.seq()[i].0) ==> min_active_start is Some && (min_active_start->0).0 <= T0[*it.seq()[i].0].start_epoch.0)')
    L0.after('''let ghost MIN = min_active_start;
proof {
    assert forall|t: TxId| active(T0, t) implies MIN is Some && (MIN->0).0 <= T0[t].start_epoch.0 by {
        if T0.contains_key(t) { }
    }
}''')
    L1 = f.loop(1).kind('for').iter('it').props('C03', 'C04')
    L1.invariants(('keys', 'obeys_key_model::<TxId>() && obeys_key_model::<EntityId>()'), ('frame', FRAME), *SEEN)
    L1.invariant('min_fixed', 'min_active_start == MIN')
    L1.invariant('listed_removable', 'forall|j: int| 0 <= j < to_remove@.len() ==> T0.contains_key(#[trigger] to_remove@[j]) && removable(T0, C0, MIN, to_remove@[j])')
    L2 = f.loop(2).kind('for').iter('it2').props('C03', 'C04')
    L2.invariants(
        ('keys', 'obeys_key_model::<TxId>() && obeys_key_model::<EntityId>()'),
        ('frame', 'T0 == old(self).transactions@ && C0 == old(self).committed_epochs@ && self.current_epoch == old(self).current_epoch && self.next_tx_id == old(self).next_tx_id && initial_count == T0.len()'),
        ('listed_removable', 'forall|j: int| 0 <= j < to_remove@.len() ==> T0.contains_key(#[trigger] to_remove@[j]) && removable(T0, C0, MIN, to_remove@[j])'),
        ('kept_unchanged', 'forall|k: TxId| #![trigger self.transactions@.contains_key(k)] self.transactions@.contains_key(k) ==> T0.contains_key(k) && self.transactions@[k] == T0[k]'),
        ('ce_kept_unchanged', 'forall|k: TxId| #![trigger self.committed_epochs@.contains_key(k)] self.committed_epochs@.contains_key(k) ==> C0.contains_key(k) && self.committed_epochs@[k] == C0[k]'),
        ('listed_are_gone', 'forall|j: int| 0 <= j < it2.index@ ==> !self.transactions@.contains_key(#[trigger] to_remove@[j])'),
        ('only_listed_removed', 'forall|k: TxId| T0.contains_key(k) && !self.transactions@.contains_key(k) ==> exists|j: int| 0 <= j < it2.index@ && to_remove@[j] == k'),
        ('ce_only_listed_removed', 'forall|k: TxId| C0.contains_key(k) && !self.committed_epochs@.contains_key(k) ==> exists|j: int| 0 <= j < it2.index@ && to_remove@[j] == k'),
        ('len', 'self.transactions@.len() <= initial_count && self.transactions@.dom().finite()'),
        ('iter', 'it2.seq().len() == to_remove@.len() && forall|j: int| 0 <= j < it2.seq().len() ==> *(#[trigger] it2.seq()[j]) == to_remove@[j]'),
    )
    L2.body_start('let ghost pre_t = self.transactions@; let ghost pre_c = self.committed_epochs@;')
    L2.body_end('''proof {
    assert(self.transactions@ == pre_t.remove(*id));
    assert(self.committed_epochs@ == pre_c.remove(*id));
    assert forall|k: TxId| #![trigger self.transactions@.contains_key(k)] self.transactions@.contains_key(k) implies T0.contains_key(k) && self.transactions@[k] == T0[k] by {
        assert(pre_t.contains_key(k));
    }
    assert forall|k: TxId| #![trigger self.committed_epochs@.contains_key(k)] self.committed_epochs@.contains_key(k) implies C0.contains_key(k) && self.committed_epochs@[k] == C0[k] by {
        assert(pre_c.contains_key(k));
    }
}''')
    L2.after('''proof {
    assert forall|t: TxId, o: TxId| T0.contains_key(t) && T0[t].state == TxState::Active && T0.contains_key(o) && T0[o].state == TxState::Committed
            && C0.contains_key(o) && C0[o].0 > T0[t].start_epoch.0 implies #[trigger] self.transactions@.contains_key(o) || !#[trigger] T0.contains_key(t) by {
        if !self.transactions@.contains_key(o) {
            let j = choose|j: int| 0 <= j < to_remove@.len() && to_remove@[j] == o;
            assert(removable(T0, C0, MIN, to_remove@[j]));
            assert(active(T0, t));
            assert(MIN is Some && (MIN->0).0 <= T0[t].start_epoch.0);
        }
    }
    assert forall|t: TxId| T0.contains_key(t) && T0[t].state == TxState::Active implies self.transactions@.contains_key(t) by {
        if !self.transactions@.contains_key(t) {
            let j = choose|j: int| 0 <= j < to_remove@.len() && to_remove@[j] == t;
            assert(removable(T0, C0, MIN, to_remove@[j]));
        }
    }
    assert forall|k: TxId| C0.contains_key(k) && self.transactions@.contains_key(k) implies self.committed_epochs@.contains_key(k) by {
        if !self.committed_epochs@.contains_key(k) {
            let j = choose|j: int| 0 <= j < to_remove@.len() && to_remove@[j] == k;
            assert(!self.transactions@.contains_key(to_remove@[j]));
        }
    }
}''')
    # ---- small accessors the garbage-collection horizon is built from ----
    f = u.method(SRC, 'TransactionManager', 'current_epoch').D1().ret('r').props('C02', 'C03')
    f.sub('E2', 'self.current_epoch.load(Ordering::Acquire)', 'load_u64(&self.current_epoch)')
    f.ensures('value', 'r.0 == self.current_epoch')
    f = u.method(SRC, 'TransactionManager', 'min_active_epoch').D1().ret('r').props('C02', 'C03')
    f.sub('E3', '    let txns = self.transactions.read();\n', '')
    f.resub('E3', r'\btxns\b', 'self.transactions')
    f.R8t('Option<EpochId>')
    f.ensures('lower_bound_of_every_active_snapshot', 'forall|t: TxId| active(self.transactions@, t) ==> r.0 <= #[trigger] self.transactions@[t].start_epoch.0')
    # (deliberately NOT required: that the bound is attained by some active transaction - a lower horizon only makes version GC keep more)
    f.body_start('proof { axiom_keys(); }\nlet ghost T0 = self.transactions@;')
    L = f.loop(0).kind('for').iter('it')
    L.invariants(('keys', 'obeys_key_model::<TxId>() && obeys_key_model::<EntityId>()'), ('frame', 'T0 == self.transactions@'),
                 ('seen_sound', 'forall|i: int| 0 <= i < it.seq().len() ==> T0.contains_key(*(#[trigger] it.seq()[i]).0) && T0[*it.seq()[i].0] == *it.seq()[i].1'),
                 ('seen_complete', 'forall|kk: TxId| T0.contains_key(kk) ==> exists|i: int| 0 <= i < it.seq().len() && *it.seq()[i].0 == kk'),
                 ('lower_bound', 'forall|i: int| 0 <= i < it.index@ ==> (#[trigger] active(T0, *it.seq()[i].0) ==> m__ is Some && (m__->0).0 <= T0[*it.seq()[i].0].start_epoch.0)'))
    L.after('''proof {
    assert forall|t: TxId| active(T0, t) implies m__ is Some && (m__->0).0 <= #[trigger] T0[t].start_epoch.0 by {
        if T0.contains_key(t) { }
    }
}''')
    f = u.method(SRC, 'TransactionManager', 'abort_all_active').D1().props('C02')
    f.sub('E3', 'pub fn abort_all_active(&self)', 'pub fn abort_all_active(&mut self)')
    f.sub('E3', '    let mut txns = self.transactions.write();\n', '')
    f.resub('E3', r'\btxns\b', 'self.transactions')
    f.R32()
    f.ensures('no_active_left', 'forall|t: TxId| #![trigger final(self).transactions@.contains_key(t)] final(self).transactions@.contains_key(t) == old(self).transactions@.contains_key(t)'
              ' && (old(self).transactions@.contains_key(t) ==> final(self).transactions@[t].state == (if old(self).transactions@[t].state == TxState::Active { TxState::Aborted } else { old(self).transactions@[t].state })'
              ' && final(self).transactions@[t].write_set == old(self).transactions@[t].write_set && final(self).transactions@[t].read_set == old(self).transactions@[t].read_set'
              ' && final(self).transactions@[t].start_epoch == old(self).transactions@[t].start_epoch)', ['C02'])
    f.ensures('frame', 'final(self).committed_epochs@ == old(self).committed_epochs@ && final(self).current_epoch == old(self).current_epoch && final(self).next_tx_id == old(self).next_tx_id')
    f.body_start('proof { axiom_keys(); }\nlet ghost T0 = self.transactions@;')
    L = f.loop('in 0..keys__1.len()').kind('for').props('C02')
    DONE = '(if T0[%s].state == TxState::Active { TxState::Aborted } else { T0[%s].state })'
    L.invariants(('keys', 'obeys_key_model::<TxId>() && obeys_key_model::<EntityId>() && keys__1@.no_duplicates() && (forall|k: TxId| #[trigger] keys__1@.contains(k) <==> T0.contains_key(k))'),
                 ('frame', 'self.committed_epochs@ == old(self).committed_epochs@ && self.current_epoch == old(self).current_epoch && self.next_tx_id == old(self).next_tx_id && T0 == old(self).transactions@ && self.transactions@.dom() == T0.dom()'),
                 ('done', 'forall|q: int| 0 <= q < i__1 ==> self.transactions@[#[trigger] keys__1@[q]].state == ' + (DONE % ('keys__1@[q]', 'keys__1@[q]'))),
                 ('sets_kept', 'forall|t: TxId| #![trigger self.transactions@[t]] T0.contains_key(t) ==> self.transactions@[t].write_set == T0[t].write_set && self.transactions@[t].read_set == T0[t].read_set && self.transactions@[t].start_epoch == T0[t].start_epoch'),
                 ('todo', 'forall|q: int| i__1 <= q < keys__1@.len() ==> self.transactions@[#[trigger] keys__1@[q]] == T0[keys__1@[q]]'))
    L.body_start('let ghost pre = self.transactions@;\nproof { assert(keys__1@.contains(keys__1@[i__1 as int])); }')
    L.body_end('''proof {
    lemma_get_mut_effect(pre, self.transactions@, k__);
    assert(pre[k__] == T0[k__]);
    assert forall|q: int| 0 <= q < keys__1@.len() && q != i__1 implies keys__1@[q] != k__ && self.transactions@[#[trigger] keys__1@[q]] == pre[keys__1@[q]] by { assert(keys__1@.contains(keys__1@[q])); }
}''')
    L.after('''proof {
    assert forall|t: TxId| T0.contains_key(t) implies self.transactions@[t].state == (if T0[t].state == TxState::Active { TxState::Aborted } else { T0[t].state }) by {
        assert(keys__1@.contains(t));
        let q = choose|q: int| 0 <= q < keys__1@.len() && keys__1@[q] == t;
        assert(self.transactions@[keys__1@[q]].state == (if T0[keys__1@[q]].state == TxState::Active { TxState::Aborted } else { T0[keys__1@[q]].state }));
    }
}''')
    u.trust('external_body map_keys', 'R32: HashMap::keys() lists every key exactly once')
    f = u.method(SRC, 'TransactionManager', 'mark_committed').D1().props('C03')
    f.sub('E3', 'pub fn mark_committed(&self,', 'pub fn mark_committed(&mut self,')
    f.sub('E3', 'self.committed_epochs.write().insert(', 'self.committed_epochs.insert(')
    f.ensures('recorded', 'final(self).committed_epochs@ == old(self).committed_epochs@.insert(tx_id, epoch)')
    f.ensures('frame', 'final(self).transactions@ == old(self).transactions@ && final(self).current_epoch == old(self).current_epoch && final(self).next_tx_id == old(self).next_tx_id')
    f.body_start('proof { axiom_keys(); }')
    f = u.method(SRC, 'TransactionManager', 'last_assigned_tx_id').D1().ret('r').props('C20')
    f.sub('E2', 'self.next_tx_id.load(Ordering::Relaxed)', 'load_u64(&self.next_tx_id)')
    f.ensures('value', 'match r { Some(t) => self.next_tx_id > 1 && t.0 == self.next_tx_id - 1, None => self.next_tx_id <= 1 }')
    u.not_covered += [
                      'TransactionManager::active_count, state / start_epoch / isolation_level (Option::map closures), get_write_set',
                      'Session / operators calling the manager; parallel.rs; every multi-threaded interleaving']
    return u
