"""Unit ADJLIST (C14): the storage side of an adjacency list - AdjacencyChunk::{new, len, is_full, push} and AdjacencyList::{new, add_edge,
mark_deleted, compact, maybe_compress_to_cold, freeze_all}: every stored (neighbour, edge) entry survives compaction and hot -> cold migration,
exactly once (multiset preserved), add_edge adds exactly one entry, tombstones do not touch the entries.

The read side (`iter()` - an `impl Iterator` chain over cold, hot and delta storage filtered by the tombstone set) is NOT within Verus' reach,
and `AdjacencyChunk::compress` (sort + the C15 codecs) is under an ASSUMED contract (same multiset), cross-checked by the bounded Kani unit
ADJACENCY for chunks of 1..3 entries."""
import re

from vlib import Unit

SRC = 'crates/grafeo-core/src/index/adjacency.rs'
ID = 'crates/grafeo-common/src/types/id.rs'

TEMPLATE = r'''
use vstd::prelude::*;
use vstd::multiset::*;
use std::collections::HashSet;
use std::collections::HashMap;
use vstd::std_specs::hash::*;
verus! {
broadcast use vstd::std_specs::hash::group_hash_axioms;
@@NodeId@@
@@EdgeId@@
pub type Entry = (NodeId, EdgeId);

@@COLD_COMPRESSION_THRESHOLD@@
@@DELTA_COMPACTION_THRESHOLD@@

@@AdjacencyChunk@@
// E1: the compressed form is opaque; what it holds is an uninterpreted multiset
#[verifier::external_body] pub struct CompressedAdjacencyChunk { _p: () }
impl CompressedAdjacencyChunk { pub uninterp spec fn entries(&self) -> Multiset<Entry>; }
// std: mem::take returns the old value (what it leaves behind - T::default() - is deliberately not specified)
pub assume_specification<T: Default>[ core::mem::take::<T> ](dest: &mut T) -> (r: T) ensures r == *old(dest);
// R29: `v.drain(..)` - ASSUMED std contract
#[verifier::external_body] fn drain_all<T>(v: &mut Vec<T>) -> (r: Vec<T>) ensures r@ == old(v)@, final(v)@ == Seq::<T>::empty() { v.drain(..).collect() }

proof fn lemma_ms_push(s: Seq<Entry>, e: Entry) ensures s.push(e).to_multiset() =~= s.to_multiset().insert(e) { broadcast use vstd::seq_lib::group_to_multiset_ensures; }
proof fn lemma_ms_empty() ensures Seq::<Entry>::empty().to_multiset() =~= Multiset::<Entry>::empty() { broadcast use vstd::seq_lib::group_to_multiset_ensures; }
proof fn lemma_ms_single(e: Entry) ensures Seq::<Entry>::empty().push(e).to_multiset() =~= Multiset::<Entry>::empty().insert(e) { lemma_ms_push(Seq::<Entry>::empty(), e); lemma_ms_empty(); }

impl AdjacencyChunk {
    pub open spec fn wf(&self) -> bool { self.destinations@.len() == self.edge_ids@.len() }
    pub open spec fn seq(&self) -> Seq<Entry> { Seq::new(self.destinations@.len(), |i: int| (self.destinations@[i], self.edge_ids@[i])) }
    pub open spec fn ms(&self) -> Multiset<Entry> { self.seq().to_multiset() }

    @@AdjacencyChunk::new@@

    @@AdjacencyChunk::len@@

    @@AdjacencyChunk::is_full@@

    @@AdjacencyChunk::push@@

    // sort by destination + DeltaBitPacked / BitPackedInts: ASSUMED to keep the multiset (bounded Kani cross-check: unit ADJACENCY)
    #[verifier::external_body]
    fn compress(&self) -> (r: CompressedAdjacencyChunk) requires self.wf() ensures r.entries() == self.ms() { unimplemented!() }
}

pub open spec fn hot_ms(s: Seq<AdjacencyChunk>) -> Multiset<Entry> decreases s.len() { if s.len() == 0 { Multiset::empty() } else { hot_ms(s.drop_last()).add(s.last().ms()) } }
pub open spec fn cold_ms(s: Seq<CompressedAdjacencyChunk>) -> Multiset<Entry> decreases s.len() { if s.len() == 0 { Multiset::empty() } else { cold_ms(s.drop_last()).add(s.last().entries()) } }
pub open spec fn all_wf(s: Seq<AdjacencyChunk>) -> bool { forall|i: int| 0 <= i < s.len() ==> (#[trigger] s[i]).wf() }

proof fn lemma_hot_push(s: Seq<AdjacencyChunk>, c: AdjacencyChunk) ensures hot_ms(s.push(c)) == hot_ms(s).add(c.ms())
{ assert(s.push(c).drop_last() =~= s); }
proof fn lemma_cold_push(s: Seq<CompressedAdjacencyChunk>, c: CompressedAdjacencyChunk) ensures cold_ms(s.push(c)) == cold_ms(s).add(c.entries())
{ assert(s.push(c).drop_last() =~= s); }
proof fn lemma_hot_remove_first(s: Seq<AdjacencyChunk>)
    requires s.len() > 0
    ensures hot_ms(s) =~= s[0].ms().add(hot_ms(s.remove(0)))
    decreases s.len()
{
    if s.len() == 1 {
        assert(s.remove(0) =~= Seq::<AdjacencyChunk>::empty());
        assert(s.drop_last() =~= Seq::<AdjacencyChunk>::empty());
    } else {
        let d = s.drop_last();
        lemma_hot_remove_first(d);
        assert(s.remove(0).drop_last() =~= d.remove(0));
        assert(s.remove(0).last() == s.last());
        assert(d[0] == s[0]);
    }
}

@@AdjacencyList@@

impl AdjacencyList {
    pub open spec fn wf(&self) -> bool { all_wf(self.hot_chunks@) }
    /// every stored (neighbour, edge) entry, wherever it currently lives: cold chunks, hot chunks, delta buffer
    pub open spec fn ms(&self) -> Multiset<Entry> { cold_ms(self.cold_chunks@).add(hot_ms(self.hot_chunks@)).add(self.delta_inserts@.to_multiset()) }

    @@AdjacencyList::new@@

    @@AdjacencyList::add_edge@@

    @@AdjacencyList::mark_deleted@@

    @@AdjacencyList::compact@@

    @@AdjacencyList::maybe_compress_to_cold@@

    @@AdjacencyList::freeze_all@@
}


// ================= ChunkedAdjacency: node -> adjacency list =================
@@ChunkedAdjacency@@
pub proof fn axiom_node_keys() ensures obeys_key_model::<NodeId>() { admit(); }
pub assume_specification<'a, K, V, S, A, Q>[ HashMap::<K, V, S, A>::get_mut::<Q> ](m: &'a mut HashMap<K, V, S, A>, k: &Q) -> (r: Option<&'a mut V>)
    where K: Eq + std::hash::Hash + std::borrow::Borrow<Q>, Q: std::hash::Hash + Eq + ?Sized, S: std::hash::BuildHasher, A: std::alloc::Allocator
    ensures
        obeys_key_model::<K>() && builds_valid_hashers::<S>() ==> match r {
            Some(v) => contains_borrowed_key(old(m)@, k) && maps_borrowed_key_to_value(old(m)@, k, *v)
                && contains_borrowed_key(final(m)@, k) && maps_borrowed_key_to_value(final(m)@, k, *final(v))
                && (exists|mid: Map<K, V>| borrowed_key_removed(old(m)@, mid, k) && borrowed_key_removed(final(m)@, mid, k)),
            None => !contains_borrowed_key(old(m)@, k) && final(m)@ == old(m)@,
        }
;
// R32: the keys of a map, each exactly once
#[verifier::external_body] fn map_keys<V>(m: &HashMap<NodeId, V>) -> (r: Vec<NodeId>)
    ensures r@.no_duplicates(), forall|k: NodeId| #[trigger] r@.contains(k) <==> m@.contains_key(k) { m.keys().copied().collect() }
// R35: `m.entry(k).or_insert_with(AdjacencyList::new)` - ASSUMED std entry API: the list under k (a NEW, empty one if absent), other keys untouched
#[verifier::external_body]
fn entry_or_insert_with_new<'a>(m: &'a mut HashMap<NodeId, AdjacencyList>, k: NodeId) -> (r: &'a mut AdjacencyList)
    ensures
        old(m)@.contains_key(k) ==> *r == old(m)@[k],
        !old(m)@.contains_key(k) ==> r.wf() && r.ms() =~= Multiset::<Entry>::empty(),
        final(m)@ == old(m)@.insert(k, *final(r)),
{ m.entry(k).or_insert_with(AdjacencyList::new) }
// E2: atomic counters, sequentially
fn fetch_add_usize(a: &mut usize, v: usize) -> (o: usize) ensures o == *old(a), *final(a) == (if *old(a) + v > usize::MAX { (*old(a) + v - usize::MAX - 1) as usize } else { (*old(a) + v) as usize })
{ let o = *a; *a = o.wrapping_add(v); o }

/// the entries stored for node n (none if n has no list)
pub open spec fn entries_of(m: Map<NodeId, AdjacencyList>, n: NodeId) -> Multiset<Entry> { if m.contains_key(n) { m[n].ms() } else { Multiset::empty() } }
pub open spec fn lists_wf(m: Map<NodeId, AdjacencyList>) -> bool { forall|n: NodeId| #[trigger] m.contains_key(n) ==> m[n].wf() }
proof fn lemma_get_mut_frame<V>(pre: Map<NodeId, V>, post: Map<NodeId, V>, k: NodeId)
    requires pre.contains_key(k), post.contains_key(k), exists|mid: Map<NodeId, V>| borrowed_key_removed(pre, mid, &k) && borrowed_key_removed(post, mid, &k), obeys_key_model::<NodeId>(),
    ensures forall|o: NodeId| #![trigger post.contains_key(o)] #![trigger pre.contains_key(o)] #![trigger post[o]] #![trigger pre[o]] o != k ==> (post.contains_key(o) == pre.contains_key(o)) && (pre.contains_key(o) ==> post[o] == pre[o]),
{
    let mid = choose|mid: Map<NodeId, V>| borrowed_key_removed(pre, mid, &k) && borrowed_key_removed(post, mid, &k);
    assert(mid == pre.remove(k)); assert(mid == post.remove(k));
    assert forall|o: NodeId| #![trigger post.contains_key(o)] #![trigger pre.contains_key(o)] #![trigger post[o]] #![trigger pre[o]] o != k implies (post.contains_key(o) == pre.contains_key(o)) && (pre.contains_key(o) ==> post[o] == pre[o]) by {
        assert(mid.contains_key(o) == pre.contains_key(o)); assert(mid.contains_key(o) == post.contains_key(o));
        if pre.contains_key(o) { assert(mid[o] == pre[o]); assert(mid[o] == post[o]); }
    }
}

impl ChunkedAdjacency {
    /// Representation invariant: every list is well formed and chunks can hold at least one entry
    pub open spec fn wf(&self) -> bool { self.chunk_capacity > 0 && lists_wf(self.lists@) }

    @@ChunkedAdjacency::with_chunk_capacity@@

    @@ChunkedAdjacency::add_edge@@

    @@ChunkedAdjacency::mark_deleted@@

    @@ChunkedAdjacency::compact@@

    @@ChunkedAdjacency::compact_if_needed@@

    @@ChunkedAdjacency::clear@@
}
} // verus!
fn main() {}
'''


def build(repo):
    u = Unit('adjlist', ['C14'], repo, TEMPLATE, features=['allocator_api'], edition2024=True)
    kd = {'Clone', 'Copy', 'PartialEq', 'Eq', 'Hash'}
    for n in ('NodeId', 'EdgeId'):
        u.item(ID, 'struct', n).D1(keep_derive=kd)
    u.item(SRC, 'const', 'COLD_COMPRESSION_THRESHOLD').D1()
    u.item(SRC, 'const', 'DELTA_COMPACTION_THRESHOLD').D1()
    u.item(SRC, 'struct', 'AdjacencyChunk').D1(keep_derive=set()).V1().resub('V1', r'^struct AdjacencyChunk', 'pub struct AdjacencyChunk', flags=re.M)
    st = u.item(SRC, 'struct', 'AdjacencyList').D1(keep_derive=set()).V1().resub('V1', r'^struct AdjacencyList', 'pub struct AdjacencyList', flags=re.M)
    st.sub('E1', 'SmallVec<[(NodeId, EdgeId); 16]>', 'Vec<(NodeId, EdgeId)>')
    st.sub('E1', 'FxHashSet<EdgeId>', 'HashSet<EdgeId>')
    for w, why in [('external_body CompressedAdjacencyChunk', 'E1: the compressed chunk is opaque; its content is an uninterpreted multiset'),
                   ('assume_specification core::mem::take', 'std: take returns the previous value; nothing is assumed about what is left behind'),
                   ('external_body drain_all', 'R29: std Vec::drain(..) yields every element in order and leaves the vector empty'),
                   ('external_body AdjacencyChunk::compress', 'sort + DeltaBitPacked + BitPackedInts: ASSUMED to keep the multiset of entries (bounded Kani cross-check in unit ADJACENCY; the codecs themselves are C15)')]:
        u.trust(w, why)
    u.assume('E1: SmallVec<[T; 16]> -> Vec<T>, FxHashSet -> std HashSet (same sequential semantics)')

    f = u.method(SRC, 'AdjacencyChunk', 'new').D1().ret('r')
    f.ensures('empty', 'r.wf() && r.seq() == Seq::<Entry>::empty() && r.capacity == capacity')
    f.before_tail('let r__ = ')
    f.body_end(';\nproof { assert(r__.seq() =~= Seq::<Entry>::empty()); }\nr__')
    u.method(SRC, 'AdjacencyChunk', 'len').D1().ret('r').ensures('len', 'r == self.destinations@.len()')
    u.method(SRC, 'AdjacencyChunk', 'is_full').D1().ret('r').ensures('full', 'r == (self.destinations@.len() >= self.capacity)')
    f = u.method(SRC, 'AdjacencyChunk', 'push').D1().ret('r')
    f.requires('wf', 'old(self).wf()')
    f.ensures('wf', 'final(self).wf() && final(self).capacity == old(self).capacity')
    f.ensures('accepted_iff_room', 'r == (old(self).destinations@.len() < old(self).capacity)')
    f.ensures('appends_or_nothing', '(r ==> final(self).seq() == old(self).seq().push((dst, edge_id))) && (!r ==> *final(self) == *old(self))')
    f.before_tail('proof { assert(self.seq() =~= old(self).seq().push((dst, edge_id))); }')

    f = u.method(SRC, 'AdjacencyList', 'new').D1().ret('r')
    f.sub('E1', 'SmallVec::new()', 'Vec::new()')
    f.sub('E1', 'FxHashSet::default()', 'HashSet::new()')
    f.ensures('empty', 'r.wf() && r.ms() =~= Multiset::<Entry>::empty()')
    f.before_tail('let r__ = ')
    f.body_end(';\nproof { lemma_ms_empty(); assert(r__.ms() =~= Multiset::<Entry>::empty()); }\nr__')

    f = u.method(SRC, 'AdjacencyList', 'add_edge').D1().R6()
    f.requires('wf', 'old(self).wf()')
    f.ensures('wf', 'final(self).wf()')
    f.ensures('exactly_one_more_entry', 'final(self).ms() =~= old(self).ms().insert((dst, edge_id))')
    f.ensures('tombstones_untouched', 'final(self).deleted == old(self).deleted')
    f.body_start('broadcast use vstd::seq_lib::group_to_multiset_ensures;\nlet ghost h0 = self.hot_chunks@;')
    f.before('return;', '''proof {
    let h1 = self.hot_chunks@;
    assert(h1.drop_last() =~= h0.drop_last());
    lemma_ms_push(h0.last().seq(), (dst, edge_id));
    assert(h1.last().ms() =~= h0.last().ms().insert((dst, edge_id)));
}''', optional=True)
    f.before('self.delta_inserts.push(', 'proof { assert(self.hot_chunks@ =~= h0); lemma_ms_push(self.delta_inserts@, (dst, edge_id)); }')

    f = u.method(SRC, 'AdjacencyList', 'mark_deleted').D1()
    f.ensures('entries_untouched', 'final(self).ms() == old(self).ms() && final(self).hot_chunks == old(self).hot_chunks')

    f = u.method(SRC, 'AdjacencyList', 'compact').D1().R28().R29().R5()
    f.requires('wf', 'old(self).wf()')
    f.requires('capacity_positive', 'chunk_capacity > 0')      # with capacity 0 every push fails and compact LOSES the delta entries (ChunkedAdjacency::with_chunk_capacity(0))
    f.ensures('wf', 'final(self).wf()')
    f.ensures('no_entry_lost_or_duplicated', 'final(self).ms() =~= old(self).ms()')
    f.ensures('tombstones_untouched', 'final(self).deleted == old(self).deleted')
    f.body_start('broadcast use vstd::seq_lib::group_to_multiset_ensures;')
    f.before('let last_has_room', 'let ghost h0 = self.hot_chunks@; let ghost d0 = self.delta_inserts@; let ghost c0 = self.cold_chunks@;')
    f.before('let drained__', '''proof {
    if last_has_room { assert(h0 =~= self.hot_chunks@.push(current_chunk)); lemma_hot_push(self.hot_chunks@, current_chunk); }
    else { lemma_ms_empty(); assert(current_chunk.ms() =~= Multiset::<Entry>::empty()); }
    assert(hot_ms(self.hot_chunks@).add(current_chunk.ms()) =~= hot_ms(h0));
}''')
    L = f.loop(0).kind('for').iter('it')
    L.invariants(('frame', 'it.seq() == d0 && drained__@ == d0 && self.wf() && current_chunk.wf() && chunk_capacity > 0 && self.cold_chunks@ == c0 && self.deleted == old(self).deleted && self.delta_inserts@ == Seq::<Entry>::empty()'),
                 ('moved_so_far', 'hot_ms(self.hot_chunks@).add(current_chunk.ms()) =~= hot_ms(h0).add(d0.take(it.index@ as int).to_multiset())'))
    L.before('proof { lemma_ms_empty(); assert(d0.take(0) =~= Seq::<Entry>::empty()); }')
    L.body_start('let ghost hm = hot_ms(self.hot_chunks@); let ghost cm = current_chunk.ms(); let ghost cs = current_chunk.seq(); let ghost cur0 = current_chunk; let ghost hs = self.hot_chunks@;')
    L.body_end('''proof {
    let e = (dst, edge_id);
    if hs.len() == self.hot_chunks@.len() {
        // the push into the current chunk was accepted
        assert(current_chunk.seq() == cs.push(e));
        lemma_ms_push(cs, e);
    } else {
        // the current chunk was full: it went to the hot list and a fresh chunk took the entry
        assert(self.hot_chunks@ =~= hs.push(cur0));
        lemma_hot_push(hs, cur0);
        assert(current_chunk.seq() =~= Seq::<Entry>::empty().push(e));
        lemma_ms_single(e);
    }
    assert(d0.take(it.index@ + 1) =~= d0.take(it.index@ as int).push(e));
    lemma_ms_push(d0.take(it.index@ as int), e);
    assert(hot_ms(self.hot_chunks@).add(current_chunk.ms()) =~= hm.add(cm).insert(e));
}''')
    L.after('proof { assert(d0.take(d0.len() as int) =~= d0); }')
    f.before('self.hot_chunks.push(current_chunk);', 'proof { lemma_hot_push(self.hot_chunks@, current_chunk); }', nth=1, optional=True)
    f.before('self.maybe_compress_to_cold();', '''proof {
    lemma_ms_empty();
    if current_chunk.destinations@.len() == 0 { assert(current_chunk.seq() =~= Seq::<Entry>::empty()); }
    assert(self.delta_inserts@.to_multiset() =~= Multiset::<Entry>::empty());
}''', optional=True)

    f = u.method(SRC, 'AdjacencyList', 'maybe_compress_to_cold').D1()
    f.requires('wf', 'old(self).wf()')
    f.ensures('wf', 'final(self).wf()')
    f.ensures('no_entry_lost_or_duplicated', 'final(self).ms() =~= old(self).ms()')
    f.ensures('frame', 'final(self).deleted == old(self).deleted && final(self).delta_inserts == old(self).delta_inserts')
    f.body_start('broadcast use vstd::seq_lib::group_to_multiset_ensures;')
    L = f.loop(0).kind('while')
    L.invariants(('preserved', 'self.wf() && self.ms() =~= old(self).ms() && self.deleted == old(self).deleted && self.delta_inserts == old(self).delta_inserts'))
    L.decreases('self.hot_chunks@.len()')
    L.body_start('let ghost h = self.hot_chunks@; let ghost c = self.cold_chunks@;\nproof { lemma_hot_remove_first(h); }')
    f.before('continue;', 'proof { assert(oldest.seq() =~= Seq::<Entry>::empty()); lemma_ms_empty(); assert(oldest.ms() =~= Multiset::<Entry>::empty()); }', optional=True)
    L.body_end('proof { lemma_cold_push(c, compressed); }')

    f = u.method(SRC, 'AdjacencyList', 'freeze_all').D1().R29().R5()
    f.requires('wf', 'old(self).wf()')
    f.ensures('wf', 'final(self).wf()')
    f.ensures('no_entry_lost_or_duplicated', 'final(self).ms() =~= old(self).ms()')
    f.ensures('frame', 'final(self).deleted == old(self).deleted && final(self).delta_inserts == old(self).delta_inserts')
    f.body_start('broadcast use vstd::seq_lib::group_to_multiset_ensures;\nlet ghost h0 = self.hot_chunks@; let ghost c0 = self.cold_chunks@;')
    L = f.loop(0).kind('for').iter('it')
    L.invariants(('frame', 'it.seq() == h0 && all_wf(h0) && self.hot_chunks@ == Seq::<AdjacencyChunk>::empty() && self.deleted == old(self).deleted && self.delta_inserts == old(self).delta_inserts'),
                 ('moved_so_far', 'cold_ms(self.cold_chunks@) =~= cold_ms(c0).add(hot_ms(h0.take(it.index@ as int)))'))
    L.before('proof { assert(h0.take(0) =~= Seq::<AdjacencyChunk>::empty()); }')
    L.body_start('let ghost cc = self.cold_chunks@;')
    L.body_end('''proof {
    let t1 = h0.take(it.index@ + 1);
    assert(t1.drop_last() =~= h0.take(it.index@ as int));
    assert(t1.last() == chunk);
    if chunk.destinations@.len() == 0 { assert(chunk.seq() =~= Seq::<Entry>::empty()); lemma_ms_empty(); }
    else { assert(self.cold_chunks@ =~= cc.push(self.cold_chunks@.last())); lemma_cold_push(cc, self.cold_chunks@.last()); }
}''')
    L.after('proof { assert(h0.take(h0.len() as int) =~= h0); }')
    # ---- ChunkedAdjacency ----
    for w, why in [('admit axiom_node_keys', 'derived Hash/Eq of NodeId (u64 newtype) are lawful'), ('assume_specification HashMap::get_mut', 'std semantics (as in units TM / RDFSTORE / MVCC)'),
                   ('external_body map_keys', 'R32: HashMap::keys() lists every key exactly once'),
                   ('external_body entry_or_insert_with_new', 'R35: std entry API - the value under the key by mutable reference, built by AdjacencyList::new if absent, other keys untouched')]:
        u.trust(w, why)
    ca = u.item(SRC, 'struct', 'ChunkedAdjacency').D1(keep_derive=set()).V1()
    ca.sub('E3', 'lists: RwLock<FxHashMap<NodeId, AdjacencyList>>,', 'lists: HashMap<NodeId, AdjacencyList>,')
    ca.resub('E2', r'AtomicUsize', 'usize', count=2)
    f = u.method(SRC, 'ChunkedAdjacency', 'with_chunk_capacity').D1().ret('r')
    f.unwrap_call('E3', 'RwLock::new', count=1)
    f.sub('E3', 'FxHashMap::default()', 'HashMap::new()')
    f.unwrap_call('E2', 'AtomicUsize::new', count=2)
    f.ensures('usable_for_every_capacity', 'r.wf()')       # taken from the property: no capacity may make the structure lose edges
    f.ensures('empty', 'forall|n: NodeId| entries_of(r.lists@, n) =~= Multiset::<Entry>::empty()')
    f.body_start('proof { axiom_node_keys(); }')
    f = u.method(SRC, 'ChunkedAdjacency', 'add_edge').D1()
    f.sub('E3', 'pub fn add_edge(&self,', 'pub fn add_edge(&mut self,')
    f.resub('E3', r'[ \t]*let mut lists = self\.lists\.write\(\);\n', '')
    f.resub('E3', r'(?<![\.\w])lists\b', 'self.lists')
    f.R35('AdjacencyList::new')
    f.resub_opt('E2', r'self\.edge_count\.fetch_add\(1, Ordering::Relaxed\)', 'fetch_add_usize(&mut self.edge_count, 1)')
    f.requires('wf', 'old(self).wf()')
    f.ensures('wf', 'final(self).wf()')
    f.ensures('one_more_entry_for_src', 'entries_of(final(self).lists@, src) =~= entries_of(old(self).lists@, src).insert((dst, edge_id))')
    f.ensures('other_nodes_untouched', 'forall|n: NodeId| n != src ==> entries_of(final(self).lists@, n) == entries_of(old(self).lists@, n)')
    f.body_start('proof { axiom_node_keys(); }')
    f = u.method(SRC, 'ChunkedAdjacency', 'mark_deleted').D1()
    f.sub('E3', 'pub fn mark_deleted(&self,', 'pub fn mark_deleted(&mut self,')
    f.resub('E3', r'[ \t]*let mut lists = self\.lists\.write\(\);\n', '')
    f.resub('E3', r'(?<![\.\w])lists\b', 'self.lists')
    f.resub_opt('E2', r'self\.deleted_count\.fetch_add\(1, Ordering::Relaxed\)', 'fetch_add_usize(&mut self.deleted_count, 1)')
    f.requires('wf', 'old(self).wf()')
    f.ensures('wf', 'final(self).wf()')
    f.ensures('entries_untouched', 'forall|n: NodeId| entries_of(final(self).lists@, n) == entries_of(old(self).lists@, n)')
    f.body_start('proof { axiom_node_keys(); }\nlet ghost L0 = self.lists@;')
    f.body_end('proof { if L0.contains_key(src) { lemma_get_mut_frame(L0, self.lists@, src); } }')
    f = u.method(SRC, 'ChunkedAdjacency', 'compact').D1()
    f.sub('E3', 'pub fn compact(&self)', 'pub fn compact(&mut self)')
    f.resub('E3', r'[ \t]*let mut lists = self\.lists\.write\(\);\n', '')
    f.resub('E3', r'(?<![\.\w])lists\b', 'self.lists')
    f.R32()
    f.requires('wf', 'old(self).wf()')
    f.ensures('wf', 'final(self).wf()')
    f.ensures('no_entry_lost_or_duplicated', 'forall|n: NodeId| entries_of(final(self).lists@, n) =~= entries_of(old(self).lists@, n)')
    f.body_start('proof { axiom_node_keys(); }\nlet ghost L0 = self.lists@;')
    L = f.loop('in 0..keys__1.len()').kind('for')
    L.invariants(('keys', 'obeys_key_model::<NodeId>() && keys__1@.no_duplicates() && (forall|k: NodeId| #[trigger] keys__1@.contains(k) <==> L0.contains_key(k))'),
                 ('domain', 'forall|n: NodeId| #![trigger self.lists@.contains_key(n)] self.lists@.contains_key(n) == L0.contains_key(n)'),
                 ('preserved', 'self.wf() && self.chunk_capacity == old(self).chunk_capacity && forall|n: NodeId| #![trigger entries_of(self.lists@, n)] entries_of(self.lists@, n) =~= entries_of(L0, n)'))
    L.body_start('let ghost pre = self.lists@;\nproof { assert(keys__1@.contains(keys__1@[i__1 as int])); }')
    L.body_end('''proof {
    let post = self.lists@;
    lemma_get_mut_frame(pre, post, k__);
    assert(post.contains_key(k__) && pre.contains_key(k__));
    assert(post[k__].wf() && post[k__].ms() =~= pre[k__].ms());
    assert forall|n: NodeId| #![trigger entries_of(post, n)] entries_of(post, n) =~= entries_of(pre, n) by {
        if n != k__ { assert(post.contains_key(n) == pre.contains_key(n)); if pre.contains_key(n) { assert(post[n] == pre[n]); } }
    }
    assert forall|n: NodeId| #[trigger] post.contains_key(n) implies post[n].wf() by { if n != k__ { assert(pre.contains_key(n) && post[n] == pre[n]); } }
}''')
    f = u.method(SRC, 'ChunkedAdjacency', 'compact_if_needed').D1()
    f.sub('E3', 'pub fn compact_if_needed(&self)', 'pub fn compact_if_needed(&mut self)')
    f.resub('E3', r'[ \t]*let mut lists = self\.lists\.write\(\);\n', '')
    f.resub('E3', r'(?<![\.\w])lists\b', 'self.lists')
    f.R32()
    f.requires('wf', 'old(self).wf()')
    f.ensures('wf', 'final(self).wf()')
    f.ensures('no_entry_lost_or_duplicated', 'forall|n: NodeId| entries_of(final(self).lists@, n) =~= entries_of(old(self).lists@, n)')
    f.body_start('proof { axiom_node_keys(); }\nlet ghost L0 = self.lists@;')
    L = f.loop('in 0..keys__1.len()').kind('for')
    L.invariants(('keys', 'obeys_key_model::<NodeId>() && keys__1@.no_duplicates() && (forall|k: NodeId| #[trigger] keys__1@.contains(k) <==> L0.contains_key(k))'),
                 ('domain', 'forall|n: NodeId| #![trigger self.lists@.contains_key(n)] self.lists@.contains_key(n) == L0.contains_key(n)'),
                 ('preserved', 'self.wf() && self.chunk_capacity == old(self).chunk_capacity && forall|n: NodeId| #![trigger entries_of(self.lists@, n)] entries_of(self.lists@, n) =~= entries_of(L0, n)'))
    L.body_start('let ghost pre = self.lists@;\nproof { assert(keys__1@.contains(keys__1@[i__1 as int])); }')
    L.body_end('''proof {
    let post = self.lists@;
    lemma_get_mut_frame(pre, post, k__);
    assert(post.contains_key(k__) && pre.contains_key(k__));
    assert(post[k__].wf() && post[k__].ms() =~= pre[k__].ms());
    assert forall|n: NodeId| #![trigger entries_of(post, n)] entries_of(post, n) =~= entries_of(pre, n) by {
        if n != k__ { assert(post.contains_key(n) == pre.contains_key(n)); if pre.contains_key(n) { assert(post[n] == pre[n]); } }
    }
    assert forall|n: NodeId| #[trigger] post.contains_key(n) implies post[n].wf() by { if n != k__ { assert(pre.contains_key(n) && post[n] == pre[n]); } }
}''')
    f = u.method(SRC, 'ChunkedAdjacency', 'clear').D1()
    f.sub('E3', 'pub fn clear(&self)', 'pub fn clear(&mut self)')
    f.resub('E3', r'[ \t]*let mut lists = self\.lists\.write\(\);\n', '')
    f.resub('E3', r'(?<![\.\w])lists\b', 'self.lists')
    f.resub_opt('E2', r'self\.(edge_count|deleted_count)\.store\(0, Ordering::Relaxed\);', r'self.\1 = 0;')
    f.requires('wf', 'old(self).wf()')
    f.ensures('wf', 'final(self).wf()')
    f.ensures('empty', 'forall|n: NodeId| entries_of(final(self).lists@, n) =~= Multiset::<Entry>::empty()')
    f.ensures('counters', 'final(self).edge_count == 0 && final(self).deleted_count == 0')
    u.not_covered += ['AdjacencyList::{iter, neighbors, degree} (impl Iterator chains: the READ side is not covered)', 'ChunkedAdjacency::{neighbors, edges_from, out_degree, in_degree} (read side), total/active edge counters',
                      'CompressedAdjacencyChunk internals (C15 codecs; bounded cross-check in unit ADJACENCY)']
    return u
