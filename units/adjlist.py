"""Unit ADJLIST (C14): the storage side of an adjacency list - AdjacencyChunk::{new, len, is_full, push} and AdjacencyList::{new, add_edge,
mark_deleted, compact, maybe_compress_to_cold, freeze_all}: every stored (neighbour, edge) entry survives compaction and hot -> cold migration,
exactly once (multiset preserved), add_edge adds exactly one entry, tombstones do not touch the entries.

The read side (`iter()` - an `impl Iterator` chain over cold, hot and delta storage filtered by the tombstone set) is NOT within Verus' reach,
and `AdjacencyChunk::compress` (sort + the C15 codecs) is under an ASSUMED contract (same multiset), cross-checked by the bounded Kani unit
ADJACENCY for chunks of 1..3 entries."""
import re

from vlib import Unit

SRC = 'crates/grafeo-core/src/index/adjacency.rs'
ID = 'crates/grafeo-common/src/types/id.rs'

TEMPLATE = r'''
use vstd::prelude::*;
use vstd::multiset::*;
use std::collections::HashSet;
verus! {
@@NodeId@@
@@EdgeId@@
pub type Entry = (NodeId, EdgeId);

@@COLD_COMPRESSION_THRESHOLD@@

@@AdjacencyChunk@@
// E1: the compressed form is opaque; what it holds is an uninterpreted multiset
#[verifier::external_body] pub struct CompressedAdjacencyChunk { _p: () }
impl CompressedAdjacencyChunk { pub uninterp spec fn entries(&self) -> Multiset<Entry>; }
// std: mem::take returns the old value (what it leaves behind - T::default() - is deliberately not specified)
pub assume_specification<T: Default>[ core::mem::take::<T> ](dest: &mut T) -> (r: T) ensures r == *old(dest);
// R29: `v.drain(..)` - ASSUMED std contract
#[verifier::external_body] fn drain_all<T>(v: &mut Vec<T>) -> (r: Vec<T>) ensures r@ == old(v)@, final(v)@ == Seq::<T>::empty() { v.drain(..).collect() }

proof fn lemma_ms_push(s: Seq<Entry>, e: Entry) ensures s.push(e).to_multiset() =~= s.to_multiset().insert(e) { broadcast use vstd::seq_lib::group_to_multiset_ensures; }
proof fn lemma_ms_empty() ensures Seq::<Entry>::empty().to_multiset() =~= Multiset::<Entry>::empty() { broadcast use vstd::seq_lib::group_to_multiset_ensures; }
proof fn lemma_ms_single(e: Entry) ensures Seq::<Entry>::empty().push(e).to_multiset() =~= Multiset::<Entry>::empty().insert(e) { lemma_ms_push(Seq::<Entry>::empty(), e); lemma_ms_empty(); }

impl AdjacencyChunk {
    pub open spec fn wf(&self) -> bool { self.destinations@.len() == self.edge_ids@.len() }
    pub open spec fn seq(&self) -> Seq<Entry> { Seq::new(self.destinations@.len(), |i: int| (self.destinations@[i], self.edge_ids@[i])) }
    pub open spec fn ms(&self) -> Multiset<Entry> { self.seq().to_multiset() }

    @@AdjacencyChunk::new@@

    @@AdjacencyChunk::len@@

    @@AdjacencyChunk::is_full@@

    @@AdjacencyChunk::push@@

    // sort by destination + DeltaBitPacked / BitPackedInts: ASSUMED to keep the multiset (bounded Kani cross-check: unit ADJACENCY)
    #[verifier::external_body]
    fn compress(&self) -> (r: CompressedAdjacencyChunk) requires self.wf() ensures r.entries() == self.ms() { unimplemented!() }
}

pub open spec fn hot_ms(s: Seq<AdjacencyChunk>) -> Multiset<Entry> decreases s.len() { if s.len() == 0 { Multiset::empty() } else { hot_ms(s.drop_last()).add(s.last().ms()) } }
pub open spec fn cold_ms(s: Seq<CompressedAdjacencyChunk>) -> Multiset<Entry> decreases s.len() { if s.len() == 0 { Multiset::empty() } else { cold_ms(s.drop_last()).add(s.last().entries()) } }
pub open spec fn all_wf(s: Seq<AdjacencyChunk>) -> bool { forall|i: int| 0 <= i < s.len() ==> (#[trigger] s[i]).wf() }

proof fn lemma_hot_push(s: Seq<AdjacencyChunk>, c: AdjacencyChunk) ensures hot_ms(s.push(c)) == hot_ms(s).add(c.ms())
{ assert(s.push(c).drop_last() =~= s); }
proof fn lemma_cold_push(s: Seq<CompressedAdjacencyChunk>, c: CompressedAdjacencyChunk) ensures cold_ms(s.push(c)) == cold_ms(s).add(c.entries())
{ assert(s.push(c).drop_last() =~= s); }
proof fn lemma_hot_remove_first(s: Seq<AdjacencyChunk>)
    requires s.len() > 0
    ensures hot_ms(s) =~= s[0].ms().add(hot_ms(s.remove(0)))
    decreases s.len()
{
    if s.len() == 1 {
        assert(s.remove(0) =~= Seq::<AdjacencyChunk>::empty());
        assert(s.drop_last() =~= Seq::<AdjacencyChunk>::empty());
    } else {
        let d = s.drop_last();
        lemma_hot_remove_first(d);
        assert(s.remove(0).drop_last() =~= d.remove(0));
        assert(s.remove(0).last() == s.last());
        assert(d[0] == s[0]);
    }
}

@@AdjacencyList@@

impl AdjacencyList {
    pub open spec fn wf(&self) -> bool { all_wf(self.hot_chunks@) }
    /// every stored (neighbour, edge) entry, wherever it currently lives: cold chunks, hot chunks, delta buffer
    pub open spec fn ms(&self) -> Multiset<Entry> { cold_ms(self.cold_chunks@).add(hot_ms(self.hot_chunks@)).add(self.delta_inserts@.to_multiset()) }

    @@AdjacencyList::new@@

    @@AdjacencyList::add_edge@@

    @@AdjacencyList::mark_deleted@@

    @@AdjacencyList::compact@@

    @@AdjacencyList::maybe_compress_to_cold@@

    @@AdjacencyList::freeze_all@@
}

} // verus!
fn main() {}
'''


def build(repo):
    u = Unit('adjlist', ['C14'], repo, TEMPLATE, edition2024=True)
    kd = {'Clone', 'Copy', 'PartialEq', 'Eq', 'Hash'}
    for n in ('NodeId', 'EdgeId'):
        u.item(ID, 'struct', n).D1(keep_derive=kd)
    u.item(SRC, 'const', 'COLD_COMPRESSION_THRESHOLD').D1()
    u.item(SRC, 'struct', 'AdjacencyChunk').D1(keep_derive=set()).V1().resub('V1', r'^struct AdjacencyChunk', 'pub struct AdjacencyChunk', flags=re.M)
    st = u.item(SRC, 'struct', 'AdjacencyList').D1(keep_derive=set()).V1().resub('V1', r'^struct AdjacencyList', 'pub struct AdjacencyList', flags=re.M)
    st.sub('E1', 'SmallVec<[(NodeId, EdgeId); 16]>', 'Vec<(NodeId, EdgeId)>')
    st.sub('E1', 'FxHashSet<EdgeId>', 'HashSet<EdgeId>')
    for w, why in [('external_body CompressedAdjacencyChunk', 'E1: the compressed chunk is opaque; its content is an uninterpreted multiset'),
                   ('assume_specification core::mem::take', 'std: take returns the previous value; nothing is assumed about what is left behind'),
                   ('external_body drain_all', 'R29: std Vec::drain(..) yields every element in order and leaves the vector empty'),
                   ('external_body AdjacencyChunk::compress', 'sort + DeltaBitPacked + BitPackedInts: ASSUMED to keep the multiset of entries (bounded Kani cross-check in unit ADJACENCY; the codecs themselves are C15)')]:
        u.trust(w, why)
    u.assume('E1: SmallVec<[T; 16]> -> Vec<T>, FxHashSet -> std HashSet (same sequential semantics)')

    f = u.method(SRC, 'AdjacencyChunk', 'new').D1().ret('r')
    f.ensures('empty', 'r.wf() && r.seq() == Seq::<Entry>::empty() && r.capacity == capacity')
    f.before_tail('let r__ = ')
    f.body_end(';\nproof { assert(r__.seq() =~= Seq::<Entry>::empty()); }\nr__')
    u.method(SRC, 'AdjacencyChunk', 'len').D1().ret('r').ensures('len', 'r == self.destinations@.len()')
    u.method(SRC, 'AdjacencyChunk', 'is_full').D1().ret('r').ensures('full', 'r == (self.destinations@.len() >= self.capacity)')
    f = u.method(SRC, 'AdjacencyChunk', 'push').D1().ret('r')
    f.requires('wf', 'old(self).wf()')
    f.ensures('wf', 'final(self).wf() && final(self).capacity == old(self).capacity')
    f.ensures('accepted_iff_room', 'r == (old(self).destinations@.len() < old(self).capacity)')
    f.ensures('appends_or_nothing', '(r ==> final(self).seq() == old(self).seq().push((dst, edge_id))) && (!r ==> *final(self) == *old(self))')
    f.before_tail('proof { assert(self.seq() =~= old(self).seq().push((dst, edge_id))); }')

    f = u.method(SRC, 'AdjacencyList', 'new').D1().ret('r')
    f.sub('E1', 'SmallVec::new()', 'Vec::new()')
    f.sub('E1', 'FxHashSet::default()', 'HashSet::new()')
    f.ensures('empty', 'r.wf() && r.ms() =~= Multiset::<Entry>::empty()')
    f.before_tail('let r__ = ')
    f.body_end(';\nproof { lemma_ms_empty(); assert(r__.ms() =~= Multiset::<Entry>::empty()); }\nr__')

    f = u.method(SRC, 'AdjacencyList', 'add_edge').D1().R6()
    f.requires('wf', 'old(self).wf()')
    f.ensures('wf', 'final(self).wf()')
    f.ensures('exactly_one_more_entry', 'final(self).ms() =~= old(self).ms().insert((dst, edge_id))')
    f.ensures('tombstones_untouched', 'final(self).deleted == old(self).deleted')
    f.body_start('broadcast use vstd::seq_lib::group_to_multiset_ensures;\nlet ghost h0 = self.hot_chunks@;')
    f.before('return;', '''proof {
    let h1 = self.hot_chunks@;
    assert(h1.drop_last() =~= h0.drop_last());
    lemma_ms_push(h0.last().seq(), (dst, edge_id));
    assert(h1.last().ms() =~= h0.last().ms().insert((dst, edge_id)));
}''', optional=True)
    f.before('self.delta_inserts.push(', 'proof { assert(self.hot_chunks@ =~= h0); lemma_ms_push(self.delta_inserts@, (dst, edge_id)); }')

    f = u.method(SRC, 'AdjacencyList', 'mark_deleted').D1()
    f.ensures('entries_untouched', 'final(self).ms() == old(self).ms() && final(self).hot_chunks == old(self).hot_chunks')

    f = u.method(SRC, 'AdjacencyList', 'compact').D1().R28().R29().R5()
    f.requires('wf', 'old(self).wf()')
    f.requires('capacity_positive', 'chunk_capacity > 0')      # with capacity 0 every push fails and compact LOSES the delta entries (ChunkedAdjacency::with_chunk_capacity(0))
    f.ensures('wf', 'final(self).wf()')
    f.ensures('no_entry_lost_or_duplicated', 'final(self).ms() =~= old(self).ms()')
    f.ensures('tombstones_untouched', 'final(self).deleted == old(self).deleted')
    f.body_start('broadcast use vstd::seq_lib::group_to_multiset_ensures;')
    f.before('let last_has_room', 'let ghost h0 = self.hot_chunks@; let ghost d0 = self.delta_inserts@; let ghost c0 = self.cold_chunks@;')
    f.before('let drained__', '''proof {
    if last_has_room { assert(h0 =~= self.hot_chunks@.push(current_chunk)); lemma_hot_push(self.hot_chunks@, current_chunk); }
    else { lemma_ms_empty(); assert(current_chunk.ms() =~= Multiset::<Entry>::empty()); }
    assert(hot_ms(self.hot_chunks@).add(current_chunk.ms()) =~= hot_ms(h0));
}''')
    L = f.loop(0).kind('for').iter('it')
    L.invariants(('frame', 'it.seq() == d0 && drained__@ == d0 && self.wf() && current_chunk.wf() && chunk_capacity > 0 && self.cold_chunks@ == c0 && self.deleted == old(self).deleted && self.delta_inserts@ == Seq::<Entry>::empty()'),
                 ('moved_so_far', 'hot_ms(self.hot_chunks@).add(current_chunk.ms()) =~= hot_ms(h0).add(d0.take(it.index@ as int).to_multiset())'))
    L.before('proof { lemma_ms_empty(); assert(d0.take(0) =~= Seq::<Entry>::empty()); }')
    L.body_start('let ghost hm = hot_ms(self.hot_chunks@); let ghost cm = current_chunk.ms(); let ghost cs = current_chunk.seq(); let ghost cur0 = current_chunk; let ghost hs = self.hot_chunks@;')
    L.body_end('''proof {
    let e = (dst, edge_id);
    if hs.len() == self.hot_chunks@.len() {
        // the push into the current chunk was accepted
        assert(current_chunk.seq() == cs.push(e));
        lemma_ms_push(cs, e);
    } else {
        // the current chunk was full: it went to the hot list and a fresh chunk took the entry
        assert(self.hot_chunks@ =~= hs.push(cur0));
        lemma_hot_push(hs, cur0);
        assert(current_chunk.seq() =~= Seq::<Entry>::empty().push(e));
        lemma_ms_single(e);
    }
    assert(d0.take(it.index@ + 1) =~= d0.take(it.index@ as int).push(e));
    lemma_ms_push(d0.take(it.index@ as int), e);
    assert(hot_ms(self.hot_chunks@).add(current_chunk.ms()) =~= hm.add(cm).insert(e));
}''')
    L.after('proof { assert(d0.take(d0.len() as int) =~= d0); }')
    f.before('self.hot_chunks.push(current_chunk);', 'proof { lemma_hot_push(self.hot_chunks@, current_chunk); }', nth=1, optional=True)
    f.before('self.maybe_compress_to_cold();', '''proof {
    lemma_ms_empty();
    if current_chunk.destinations@.len() == 0 { assert(current_chunk.seq() =~= Seq::<Entry>::empty()); }
    assert(self.delta_inserts@.to_multiset() =~= Multiset::<Entry>::empty());
}''', optional=True)

    f = u.method(SRC, 'AdjacencyList', 'maybe_compress_to_cold').D1()
    f.requires('wf', 'old(self).wf()')
    f.ensures('wf', 'final(self).wf()')
    f.ensures('no_entry_lost_or_duplicated', 'final(self).ms() =~= old(self).ms()')
    f.ensures('frame', 'final(self).deleted == old(self).deleted && final(self).delta_inserts == old(self).delta_inserts')
    f.body_start('broadcast use vstd::seq_lib::group_to_multiset_ensures;')
    L = f.loop(0).kind('while')
    L.invariants(('preserved', 'self.wf() && self.ms() =~= old(self).ms() && self.deleted == old(self).deleted && self.delta_inserts == old(self).delta_inserts'))
    L.decreases('self.hot_chunks@.len()')
    L.body_start('let ghost h = self.hot_chunks@; let ghost c = self.cold_chunks@;\nproof { lemma_hot_remove_first(h); }')
    f.before('continue;', 'proof { assert(oldest.seq() =~= Seq::<Entry>::empty()); lemma_ms_empty(); assert(oldest.ms() =~= Multiset::<Entry>::empty()); }', optional=True)
    L.body_end('proof { lemma_cold_push(c, compressed); }')

    f = u.method(SRC, 'AdjacencyList', 'freeze_all').D1().R29().R5()
    f.requires('wf', 'old(self).wf()')
    f.ensures('wf', 'final(self).wf()')
    f.ensures('no_entry_lost_or_duplicated', 'final(self).ms() =~= old(self).ms()')
    f.ensures('frame', 'final(self).deleted == old(self).deleted && final(self).delta_inserts == old(self).delta_inserts')
    f.body_start('broadcast use vstd::seq_lib::group_to_multiset_ensures;\nlet ghost h0 = self.hot_chunks@; let ghost c0 = self.cold_chunks@;')
    L = f.loop(0).kind('for').iter('it')
    L.invariants(('frame', 'it.seq() == h0 && all_wf(h0) && self.hot_chunks@ == Seq::<AdjacencyChunk>::empty() && self.deleted == old(self).deleted && self.delta_inserts == old(self).delta_inserts'),
                 ('moved_so_far', 'cold_ms(self.cold_chunks@) =~= cold_ms(c0).add(hot_ms(h0.take(it.index@ as int)))'))
    L.before('proof { assert(h0.take(0) =~= Seq::<AdjacencyChunk>::empty()); }')
    L.body_start('let ghost cc = self.cold_chunks@;')
    L.body_end('''proof {
    let t1 = h0.take(it.index@ + 1);
    assert(t1.drop_last() =~= h0.take(it.index@ as int));
    assert(t1.last() == chunk);
    if chunk.destinations@.len() == 0 { assert(chunk.seq() =~= Seq::<Entry>::empty()); lemma_ms_empty(); }
    else { assert(self.cold_chunks@ =~= cc.push(self.cold_chunks@.last())); lemma_cold_push(cc, self.cold_chunks@.last()); }
}''')
    L.after('proof { assert(h0.take(h0.len() as int) =~= h0); }')
    u.not_covered += ['AdjacencyList::{iter, neighbors, degree} (impl Iterator chains: the READ side is not covered)', 'ChunkedAdjacency (RwLock<FxHashMap<NodeId, AdjacencyList>>, edge / deleted counters)',
                      'CompressedAdjacencyChunk internals (C15 codecs; bounded cross-check in unit ADJACENCY)']
    return u
