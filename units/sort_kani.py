"""Kani unit SORTCMP (C17): the pull, push and spill sort comparators order every pair of (heap-free) values alike, for every key configuration."""
import os
from klib import KaniUnit

SPILL = 'crates/grafeo-core/src/execution/spill/external_sort.rs'
PUSH = 'crates/grafeo-core/src/execution/operators/push/sort.rs'
PULL = 'crates/grafeo-core/src/execution/operators/sort.rs'
K = ['null', 'bool', 'int', 'float']


def build(repo):
    u = KaniUnit('sortcmp', ['C17'], 'grafeo-core', cargo_args=['--no-default-features', '--features', 'spill,parallel'], copy_crates=['grafeo-common', 'grafeo-core'])
    u.module = 'execution::spill::external_sort::verif_sortcmp'
    text = open(os.path.join(os.path.dirname(os.path.dirname(os.path.abspath(__file__))), 'kani', 'sortcmp.rs')).read()
    gen = []
    for i, a in enumerate(K):
        for j, b in enumerate(K):
            n = 'push_vs_spill_%s_%s' % (a, b)
            gen.append('pair!(%s, push_vs_spill, %d, %d);' % (n, i, j))
            u.harness(n, 'sort::compare_rows::spill_merge_agrees_with_in_memory_sort(%s,%s)' % (a, b), timeout=600)
            n = 'pull_vs_push_%s_%s' % (a, b)
            gen.append('pair!(%s, pull_vs_push, %d, %d);' % (n, i, j))
            u.harness(n, 'sort::compare::pull_agrees_with_push(%s,%s)' % (a, b), timeout=600)
            n = 'merge_vs_push_%s_%s' % (a, b)
            gen.append('pair!(%s, merge_vs_push, %d, %d);' % (n, i, j))
            u.harness(n, 'sort::compare::parallel_merge_agrees_with_push_sort(%s,%s)' % (a, b), timeout=600)
    u.append(SPILL, text.replace('//@GENERATED@', '\n    '.join(gen)))
    # insert-only wrappers that make the two private comparators callable from the harness module
    u.append(PUSH, '\n#[cfg(kani)]\npub(crate) fn kani_compare_rows(a: &[Value], b: &[Value], keys: &[SortKey]) -> Ordering { compare_rows(a, b, keys) }\n')
    u.append(PULL, '\n#[cfg(kani)]\npub(crate) fn kani_compare_values_with_nulls(a: &Option<Value>, b: &Option<Value>, nulls_first: bool) -> Ordering {\n'
                   '    compare_values_with_nulls(a, b, if nulls_first { NullOrder::NullsFirst } else { NullOrder::NullsLast })\n}\n')
    u.append('crates/grafeo-core/src/execution/operators/push/mod.rs', '\n#[cfg(kani)]\npub(crate) use sort::kani_compare_rows;\n')
    u.append('crates/grafeo-core/src/execution/operators/mod.rs', '\n#[cfg(kani)]\npub(crate) use sort::kani_compare_values_with_nulls;\n')
    u.append('crates/grafeo-core/src/execution/parallel/merge.rs', '\n#[cfg(kani)]\npub(crate) fn kani_compare_values_for_sort(a: Option<&Value>, b: Option<&Value>, nulls_first: bool) -> Ordering { compare_values_for_sort(a, b, nulls_first) }\n')
    u.append('crates/grafeo-core/src/execution/parallel/mod.rs', '\n#[cfg(kani)]\npub(crate) use merge::kani_compare_values_for_sort;\n')
    u.functions = [('compare_values_for_sort, compare_values (parallel k-way merge of sorted runs)', 'crates/grafeo-core/src/execution/parallel/merge.rs'), ('compare_rows, compare_values (external sort / k-way merge)', SPILL), ('compare_rows, compare_values (push sort, sorts every spilled run)', PUSH),
                   ('compare_values_with_nulls, compare_values (pull sort)', PULL)]
    u.assumptions = ['one sort column (each further key repeats the same code on another column); the Descending reversal of the pull sort sits in a closure and is not callable: the pull comparison is checked for the ascending key']
    u.not_covered = ['String keys (heap)', 'the sort_by / BinaryHeap machinery around the comparators, spill file I/O, run generation']
    u.ignore_checks = [r'^NaN on (addition|subtraction|multiplication|division)']
    return u
