"""Kani unit MVCC_CHAIN (C01, C02): VersionInfo complete harness; VersionChain methods BOUNDED by chain length."""
import os
from klib import KaniUnit

REL = 'crates/grafeo-common/src/mvcc.rs'
C01 = ['visible_to', 'visible_at', 'mark_deleted', 'get_mut_copy_on_write', 'add_version_then_visible_to_writer', 'modified_by_and_has_conflict']


def build(repo):
    u = KaniUnit('mvcc_chain', ['C01', 'C02'], 'grafeo-common', copy_crates=['grafeo-common'])
    u.module = 'mvcc::verif_mvcc'
    u.append(REL, open(os.path.join(os.path.dirname(os.path.dirname(os.path.abspath(__file__))), 'kani', 'mvcc_chain.rs')).read())
    u.harness('info_visibility_complete', 'mvcc::VersionInfo::{is_visible_at,is_visible_to,mark_deleted}+EpochId::is_visible_at::spec', props=['C01'])
    for n in range(6):
        tier = 'quick' if n <= 3 else 'thorough'
        for h in C01:
            u.harness('n%d::%s' % (n, h), 'mvcc::VersionChain::%s::spec[len=%d]' % (h, n), kind='bounded', bound='chain length == %d (contents symbolic)' % n,
                      props=['C01'] + (['C02'] if h == 'mark_deleted' else []), tier=tier, timeout=600)
        u.harness('n%d::remove_versions_by' % n, 'mvcc::VersionChain::remove_versions_by::whole_view[len=%d]' % n, kind='bounded',
                  bound='chain length == %d (contents symbolic)' % n, props=['C02'], tier=tier, timeout=900)
    u.functions = [('VersionChain::{visible_at, visible_to, mark_deleted, remove_versions_by, modified_by, has_conflict, get_mut, add_version}', REL),
                   ('VersionInfo::{is_visible_at, is_visible_to, mark_deleted}', REL)]
    u.not_covered = ['LpgStore / RdfStore / Session callers of the chain API (RwLock<FxHashMap>: outside both verifiers)']
    u.assumptions = ['chain harnesses are bounded stand-ins: every chain length 0..=3 (quick) / 0..=5 (thorough); longer chains are not covered by Kani']
    return u
