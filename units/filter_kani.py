"""Kani unit FILTER_KERNEL (C11, C12): the real eval_binary_op / eval_unary_op, operator + variants fixed, payloads symbolic (complete)."""
import os
from klib import KaniUnit

REL = 'crates/grafeo-core/src/execution/operators/filter.rs'
K = {0: 'null', 1: 'bool', 2: 'int', 3: 'float'}


def build(repo):
    u = KaniUnit('filter_kernel', ['C11', 'C12'], 'grafeo-core', cargo_args=['--no-default-features'], copy_crates=['grafeo-common', 'grafeo-core'])
    u.module = 'execution::operators'
    text = open(os.path.join(os.path.dirname(os.path.dirname(os.path.abspath(__file__))), 'kani', 'filter_kernel.rs')).read()
    ga, gl = [], []
    for op in ('Add', 'Sub', 'Mul', 'Div', 'Mod'):
        for a in (2, 3):
            for b in (2, 3):
                n = 'arith_%s_%s_%s' % (op.lower(), K[a], K[b])
                ga.append('arith!(%s, %s, %d, %d);' % (n, op, a, b))
                u.harness(n, 'filter::eval_binary_op::%s(%s,%s)::returns_never_panics' % (op, K[a], K[b]), props=['C12'])
    for op in ('And', 'Or', 'Xor'):
        for a in (0, 1, 2):
            for b in (0, 1, 2):
                n = 'logic_%s_%s_%s' % (op.lower(), K[a], K[b])
                gl.append('logic!(%s, %s, %d, %d);' % (n, op, a, b))
                u.harness(n, 'filter::eval_binary_op::%s(%s,%s)::three_valued' % (op, K[a], K[b]), props=['C11'])
    u.harness('neg_int', 'filter::eval_unary_op::Neg(int)::returns_never_panics', props=['C12'])
    u.harness('neg_float', 'filter::eval_unary_op::Neg(float)::negates', props=['C12'])
    for k in ('none', 'null', 'bool', 'int', 'float'):
        u.harness('unary_' + k, 'filter::eval_unary_op::{Not,IsNull,IsNotNull}(%s)::partition' % k, props=['C11'])
    gc = []
    for a in (2, 3):
        for b in (2, 3):
            for part, pname in ((0, 'lt_ge'), (1, 'gt_le'), (2, 'eq_ne')):
                n = 'cmp_%s_%s_%s' % (pname, K[a], K[b])
                gc.append('cmp!(%s, %d, %d, %d);' % (n, part, a, b))
                u.harness(n, 'filter::eval_binary_op::{%s}(%s,%s)::complementary' % (pname.replace('_', ','), K[a], K[b]), props=['C11', 'C12'], timeout=900)
    text = text.replace('//@GENERATED-CMP@', '\n    '.join(gc))
    text = text.replace('//@GENERATED-ARITH@', '\n    '.join(ga)).replace('//@GENERATED-LOGIC@', '\n    '.join(gl))
    import re
    parts = re.split(r'(?m)^//@@FILE (\S+)\n', text)
    for i in range(1, len(parts), 2):
        u.append(parts[i], parts[i + 1])
    for n in ('add_int_int', 'sub_int_int', 'mul_int_int', 'div_int_int', 'mod_int_int', 'div_float_float', 'mod_float_float', 'add_int_float'):
        u.harness('push::project::verif_project::project_' + n, 'project::BinaryExpr::evaluate::%s::returns_never_panics' % n, props=['C12'], timeout=600)
    for h in u.harnesses:
        if not h['name'].startswith('push::'):
            h['name'] = 'filter::verif_filter::' + h['name']
    u.functions = [('BinaryExpr::evaluate, ConstantExpr::evaluate (push pipeline arithmetic)', 'crates/grafeo-core/src/execution/operators/push/project.rs'), ('ExpressionPredicate::{eval_binary_op, eval_arithmetic (+ the four closures), eval_modulo, eval_unary_op, values_equal, compare_values}', REL)]
    u.not_covered = ['LIMIT/SKIP/DISTINCT/UNION/COUNT identities (operators over dyn Operator + DataChunk + hash sets)', 'string / regex / IN / Pow operators, eval_function, eval_case, comprehensions',
                     'lexers, parsers, translators, binder, planner (str byte reasoning unsupported in Verus; Kani would be a tiny bounded check of 2000-line parsers)']
    u.trust('kani::stub regex::Regex::{new,is_match}', 'cuts the Regex arm out of reachability (kani-compiler 0.68 ICE on regex_automata); the regex operator is not under any obligation')
    u.ignore_checks = [r'^NaN on (addition|subtraction|multiplication|division)']   # CBMC's NaN-generation check: producing NaN is not a Rust panic
    u.assumptions = ['rule M1: the methods under contract never read `self`; the harness passes an uninitialised receiver that is never dereferenced']
    return u
