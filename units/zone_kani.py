"""Kani unit ZONE_PRUNE (C10, C14): min/max pruning never removes a row the evaluator returns; summary invariant inductive under the real insert path."""
import os
import re
from klib import KaniUnit

K = {0: 'int', 1: 'float', 2: 'bool', 3: 'null'}


def build(repo):
    u = KaniUnit('zone_prune', ['C10', 'C14'], 'grafeo-core', cargo_args=['--no-default-features'], copy_crates=['grafeo-common', 'grafeo-core'])
    u.module = 'graph::lpg'     # harness names below carry the rest of the path
    text = open(os.path.join(os.path.dirname(os.path.dirname(os.path.abspath(__file__))), 'kani', 'zone_prune.rs')).read()
    gp, gs, gr = [], [], []
    P = 'property::verif_zone_prune::'
    R = 'store::verif_range_prune::'
    # (min, max) kind pairs: only those the insert path can produce.  min and max always belong to the same comparability class
    # (numeric = Int64/Float64, or Bool): both start as the first non-null value and are only ever replaced by a value that COMPARES
    # less / greater.  The step_* / base_* harnesses prove that invariant (`same_class`) inductive; pairs such as (int, bool) are
    # unreachable states, and obligations over them would demand more than the property states (DESIGN.md section 9).
    for a, b in ((0, 0), (0, 1), (1, 0), (1, 1), (2, 2)):
            for c in (0, 1, 2):
                for d in (0, 1, 2, 3):
                    for g, gname in ((0, 'eq'), (1, 'ord')):
                        for ex in (False, True):
                            n = 'prune_%s%s_%s_%s_%s_%s' % (gname, '_exact' if ex else '', K[a], K[b], K[c], K[d])
                            numeric = all(x in (0, 1) for x in (a, b, c)) and d in (0, 1)
                            if ex and not numeric:
                                continue
                            gp.append('prune!(%s, %d, %s, %d, %d, %d, %d);' % (n, g, 'true' if ex else 'false', a, b, c, d))
                            u.harness(P + n, 'property::PropertyColumn::might_match::conservative::%s%s[min=%s,max=%s,stored=%s,probe=%s]' % (
                                'Eq/Ne' if g == 0 else 'Lt/Le/Gt/Ge', '::exact_domain' if ex else '', K[a], K[b], K[c], K[d]),
                                tier='quick' if (ex and numeric) or (a == b == c and d in (a, 3)) else 'thorough', timeout=600)
                for d in (0, 1, 2, 3):
                    n = 'step_%s_%s_%s_%s' % (K[a], K[b], K[c], K[d])
                    gs.append('step!(%s, %d, %d, %d, %d);' % (n, a, b, c, d))
                    numeric = (a == b == c) and a in (0, 1) and d in (a, 3)
                    u.harness(P + n, 'property::PropertyColumn::update_zone_map_on_insert::summary_inductive[min=%s,max=%s,stored=%s,inserted=%s]' % (K[a], K[b], K[c], K[d]),
                              tier='quick' if numeric else 'thorough', props=['C14', 'C10'], timeout=600)
    for n in ('prune_null_probe', 'dirty_never_prunes', 'base_int', 'base_float', 'base_bool', 'base_null'):
        u.harness(P + n, 'property::PropertyColumn::' + n, props=['C14', 'C10'] if n != 'dirty_never_prunes' else ['C14'])
    KR = {0: 'int', 1: 'float', 2: 'bool', 9: 'none'}
    for a in (0, 1):
        for b in (0, 1):
            for c in (0, 1):
                for lo in (0, 1, 9):
                    for hi in (0, 1, 9):
                        same = (a == b == c) and (lo in (a, 9)) and (hi in (a, 9)) and not (lo == 9 and hi == 9)
                        for ex in (False, True):
                            if ex and (a == b == c) and lo in (a, 9) and hi in (a, 9):
                                continue        # one numeric type throughout: no conversion, the full-domain obligation is the exact one
                            n = 'range%s_%s_%s_%s_%s_%s' % ('_exact' if ex else '', KR[a], KR[b], KR[c], KR[lo], KR[hi])
                            gr.append('range!(%s, %s, %d, %d, %d, %d, %d);' % (n, 'true' if ex else 'false', a, b, c, lo, hi))
                            u.harness(R + n, 'zone_map::ZoneMapEntry::might_contain_range::conservative_vs_value_in_range%s[min=%s,max=%s,stored=%s,lo=%s,hi=%s]' % (
                                '::exact_domain' if ex else '', KR[a], KR[b], KR[c], KR[lo], KR[hi]), tier='quick' if same else 'thorough', timeout=600)
    ga = []
    for c in (0, 1):
        for lo in (0, 1, 9):
            for hi in (0, 1, 9):
                if lo == 9 and hi == 9:
                    continue
                n = 'agrees_%s_%s_%s' % (KR[c], KR[lo], KR[hi])
                ga.append('agrees!(%s, %d, %d, %d);' % (n, c, lo, hi))
                u.harness(R + n, 'store::value_in_range::agrees_with_filter_evaluator[stored=%s,lo=%s,hi=%s]' % (KR[c], KR[lo], KR[hi]), props=['C10'], timeout=600)
    text = text.replace('//@GENERATED-AGREES@', '\n    '.join(ga))
    text = text.replace('//@GENERATED-PRUNE@', '\n    '.join(gp)).replace('//@GENERATED-STEP@', '\n    '.join(gs)).replace('//@GENERATED-RANGE@', '\n    '.join(gr))
    parts = re.split(r'(?m)^//@@FILE (\S+)\n', text)
    for i in range(1, len(parts), 2):
        u.append(parts[i], parts[i + 1])
    u.functions = [('PropertyColumn::{might_match, update_zone_map_on_insert}, compare_values', 'crates/grafeo-core/src/graph/lpg/property.rs'),
                   ('ZoneMapEntry::{might_contain_equal, might_contain_less_than, might_contain_greater_than, might_contain_range, is_all_null, might_contain_non_null}, compare_values', 'crates/grafeo-core/src/index/zone_map.rs'),
                   ('value_in_range, compare_values_for_range', 'crates/grafeo-core/src/graph/lpg/store.rs'),
                   ('ExpressionPredicate::eval_binary_op (as the oracle: the evaluator pruning short-circuits)', 'crates/grafeo-core/src/execution/operators/filter.rs')]
    u.not_covered = ['property-index path, range-index path, factorized vs flat execution, plan cache (hash-map / planner code)', 'label index, adjacency lists, counts (RwLock<FxHashMap>/DashMap)',
                     'String values (heap), Bloom filter path of might_contain_equal (hash loops; PropertyColumn never installs a Bloom filter)',
                     'rebuild_zone_map (loop over FxHashMap values; its body repeats update_zone_map_on_insert), ZoneMapBuilder::add (same logic), ComparisonPredicate (needs a DataChunk)']
    u.ignore_checks = [r'^NaN on (addition|subtraction|multiplication|division)']   # CBMC's NaN-generation check is not a Rust panic
    u.trust('kani::stub regex::Regex::{new,is_match}', 'cuts the Regex arm of eval_binary_op out of reachability (kani-compiler ICE); regex is not under any obligation')
    u.assumptions = ['the summary invariant is proved inductive for one representative stored value and one insert; the n-element statement is the induction the harnesses discharge base + step for',
                     'rule M1: ExpressionPredicate methods never read self (uninitialised receiver, never dereferenced)']
    return u
