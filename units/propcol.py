"""Unit PROPCOL (C10, C14): PropertyColumn::{set, remove, update_zone_map_on_insert} - the zone-map counters and the dirty flag.

The Kani unit ZONE_PRUNE proves pruning conservative *given* `null_count < row_count` whenever a non-null value is stored.
That premise follows from the counter discipline proved here for every call, unboundedly: each set() adds exactly 1 to
row_count and (iff the value is NULL) exactly 1 to null_count; remove() never touches the counters and marks the summary stale."""
from vlib import Unit

SRC = 'crates/grafeo-core/src/graph/lpg/property.rs'
ZM = 'crates/grafeo-core/src/index/zone_map.rs'
VAL = 'crates/grafeo-common/src/types/value.rs'

TEMPLATE = r'''
use vstd::prelude::*;
use std::collections::HashMap;
use std::hash::Hash;
use std::cmp::Ordering;
use vstd::std_specs::hash::*;
verus! {
global size_of usize == 8;
broadcast use vstd::std_specs::hash::group_hash_axioms;

// E1: heap payloads of Value are opaque; the enum shape (which variant is Null) is the real one
#[verifier::external_body] pub struct Opaque { _p: () }
impl Clone for Opaque { #[verifier::external_body] fn clone(&self) -> Self { Opaque { _p: () } } }
#[verifier::external_body] pub struct BloomFilter { _p: () }
#[verifier::external_body] pub struct CompressedColumnData { _p: () }

@@Value@@
@@ZoneMapEntry@@
@@CompressionMode@@
@@EntityId@@
@@PropertyColumn@@

pub assume_specification[ <CompressionMode as PartialEq>::eq ](a: &CompressionMode, b: &CompressionMode) -> (r: bool) ensures r == (*a == *b);

const COMPRESSION_THRESHOLD: usize = 1000;
const HOT_BUFFER_SIZE: usize = 4096;

// the comparison used for min/max is irrelevant to the counters: uninterpreted here (it is exercised by Kani unit ZONE_PRUNE)
#[verifier::external_body]
fn compare_values(a: &Value, b: &Value) -> (r: Option<Ordering>) { None }
#[verifier::external_body]
fn is_less(o: Option<Ordering>) -> (r: bool) { o == Some(Ordering::Less) }
#[verifier::external_body]
fn is_greater(o: Option<Ordering>) -> (r: bool) { o == Some(Ordering::Greater) }

impl<Id: EntityId> PropertyColumn<Id> {
    // ASSUMED contract of the compression pass (codec selection + Vec<u64> packing): it does not touch the zone map.
    #[verifier::external_body]
    fn compress(&mut self)
        ensures final(self).zone_map == old(self).zone_map, final(self).zone_map_dirty == old(self).zone_map_dirty,
                final(self).values@.len() + final(self).compressed_count <= old(self).values@.len() + old(self).compressed_count,
    { }

    @@PropertyColumn::update_zone_map_on_insert@@

    @@PropertyColumn::set@@

    @@PropertyColumn::remove@@

    @@PropertyColumn::rebuild_zone_map@@
}

impl ZoneMapEntry {
    @@ZoneMapEntry::new@@
}

/// The premise of the pruning proofs, derived from the counter discipline: after any sequence of set() calls the number of
/// non-NULL writes is row_count - null_count, so a column that ever received a non-NULL value has null_count < row_count.
fn two_sets_keep_counters_apart<Id: EntityId>(c: &mut PropertyColumn<Id>, a: Id, b: Id, v: Value, w: Value)
    requires old(c).zone_map.row_count < u64::MAX - 2, old(c).zone_map.null_count <= old(c).zone_map.row_count,
             old(c).values@.len() + old(c).compressed_count < usize::MAX - 2, obeys_key_model::<Id>(),
    ensures !(v is Null) || !(w is Null) ==> final(c).zone_map.null_count < final(c).zone_map.row_count,
            final(c).zone_map.row_count == old(c).zone_map.row_count + 2,
{
    c.set(a, v);
    c.set(b, w);
}

} // verus!
fn main() {}
'''


def build(repo):
    u = Unit('propcol', ['C10', 'C14'], repo, TEMPLATE)
    v = u.item(VAL, 'enum', 'Value').D1(keep_derive={'Clone'})
    for old, new in [('String(ArcStr)', 'String(Opaque)'), ('Bytes(Arc<[u8]>)', 'Bytes(Opaque)'), ('Timestamp(Timestamp)', 'Timestamp(Opaque)'),
                     ('List(Arc<[Value]>)', 'List(Opaque)'), ('Map(Arc<BTreeMap<PropertyKey, Value>>)', 'Map(Opaque)'), ('Vector(Arc<[f32]>)', 'Vector(Opaque)')]:
        v.sub('E1', old, new)
    u.item(ZM, 'struct', 'ZoneMapEntry').D1(keep_derive=set())
    u.item(SRC, 'enum', 'CompressionMode').D1(keep_derive={'Clone', 'Copy', 'PartialEq', 'Eq'})
    u.item(SRC, 'trait', 'EntityId').D1()
    pc = u.item(SRC, 'struct', 'PropertyColumn').D1(keep_derive=set()).V1()
    pc.sub('E1', 'values: FxHashMap<Id, Value>,', 'values: HashMap<Id, Value>,')
    pc.sub('X1', 'pub struct PropertyColumn<Id: EntityId = NodeId> {', 'pub struct PropertyColumn<Id: EntityId> {')
    for w, why in [('external_body Opaque', 'E1: heap payloads of Value (ArcStr, Arc<[u8]>, Timestamp, lists, maps, vectors)'),
                   ('external_body Opaque::clone', 'E1: clone of an opaque payload'),
                   ('external_body BloomFilter', 'E1: not touched by the contracted functions'),
                   ('external_body CompressedColumnData', 'E1: not touched by the contracted functions'),
                   ('assume_specification CompressionMode::eq', 'derived PartialEq on a field-less enum is structural'),
                   ('external_body compare_values', 'uninterpreted: min/max selection does not influence the counters proved here'),
                   ('external_body is_less', 'rule X1 helper for `== Some(Ordering::Less)`'),
                   ('external_body is_greater', 'rule X1 helper for `== Some(Ordering::Greater)`'),
                   ('external_body compress', 'ASSUMED contract: the compression pass leaves zone_map / zone_map_dirty alone and does not create values')]:
        u.trust(w, why)

    f = u.method(SRC, 'PropertyColumn', 'update_zone_map_on_insert').D1()
    f.sub('X1', 'if compare_values(value, current) == Some(Ordering::Less) {', 'if is_less(compare_values(value, current)) {')
    f.sub('X1', 'if compare_values(value, current) == Some(Ordering::Greater) {', 'if is_greater(compare_values(value, current)) {')
    f.requires('room', 'old(self).zone_map.row_count < u64::MAX && old(self).zone_map.null_count <= old(self).zone_map.row_count')
    f.ensures('row_count', 'final(self).zone_map.row_count == old(self).zone_map.row_count + 1')
    f.ensures('null_count', 'final(self).zone_map.null_count == old(self).zone_map.null_count + (if *value is Null { 1int } else { 0int })')
    f.ensures('summary_present', '!(*value is Null) ==> final(self).zone_map.min is Some && final(self).zone_map.max is Some')
    f.ensures('frame', 'final(self).values@ == old(self).values@ && final(self).zone_map_dirty == old(self).zone_map_dirty'
              ' && final(self).compression_mode == old(self).compression_mode && final(self).compressed_count == old(self).compressed_count')

    f = u.method(SRC, 'PropertyColumn', 'set').D1()
    f.requires('room', 'old(self).zone_map.row_count < u64::MAX && old(self).zone_map.null_count <= old(self).zone_map.row_count')
    f.requires('len_room', 'old(self).values@.len() + old(self).compressed_count < usize::MAX')
    f.requires('keys', 'obeys_key_model::<Id>()')
    f.ensures('row_count', 'final(self).zone_map.row_count == old(self).zone_map.row_count + 1')
    f.ensures('null_count', 'final(self).zone_map.null_count == old(self).zone_map.null_count + (if value is Null { 1int } else { 0int })')
    f.ensures('dirty_kept', 'final(self).zone_map_dirty == old(self).zone_map_dirty')
    f.ensures('size', 'final(self).values@.len() + final(self).compressed_count <= old(self).values@.len() + old(self).compressed_count + 1')
    f.ensures('summary_present', '!(value is Null) ==> final(self).zone_map.min is Some && final(self).zone_map.max is Some')

    f = u.method(SRC, 'PropertyColumn', 'remove').D1().ret('removed')
    f.requires('keys', 'obeys_key_model::<Id>()')
    f.ensures('stale_after_removal', 'removed is Some ==> final(self).zone_map_dirty', ['C14', 'C10'])
    f.ensures('dirty_monotone', 'old(self).zone_map_dirty ==> final(self).zone_map_dirty')
    f.ensures('counters_kept', 'final(self).zone_map.row_count == old(self).zone_map.row_count && final(self).zone_map.null_count == old(self).zone_map.null_count')
    f = u.method(ZM, 'ZoneMapEntry', 'new').D1().ret('r')
    f.ensures('empty', 'r.min is None && r.max is None && r.null_count == 0 && r.row_count == 0')
    f = u.method(SRC, 'PropertyColumn', 'rebuild_zone_map').D1().R34().R5()
    f.resub('X1', r'if compare_values\(value, current\) == Some\(Ordering::Less\) \{', 'if is_less(compare_values(value, current)) {')
    f.resub('X1', r'if compare_values\(value, current\) == Some\(Ordering::Greater\) \{', 'if is_greater(compare_values(value, current)) {')
    f.requires('keys', 'obeys_key_model::<Id>()')
    f.requires('map_len', 'old(self).values@.len() < u64::MAX')      # machine range of row_count (a map cannot hold 2^64 entries)
    f.ensures('fresh', '!final(self).zone_map_dirty', ['C14', 'C10'])
    f.ensures('row_count', 'final(self).zone_map.row_count == old(self).values@.len()', ['C14', 'C10'])
    f.ensures('null_count', 'final(self).zone_map.null_count <= final(self).zone_map.row_count', ['C14', 'C10'])
    f.ensures('a_stored_value_is_summarised', '(exists|k: Id| old(self).values@.contains_key(k) && !(old(self).values@[k] is Null)) ==> final(self).zone_map.null_count < final(self).zone_map.row_count'
              ' && final(self).zone_map.min is Some && final(self).zone_map.max is Some', ['C14', 'C10'])
    f.ensures('frame', 'final(self).values@ == old(self).values@ && final(self).compression_mode == old(self).compression_mode && final(self).compressed_count == old(self).compressed_count')
    f.body_start('let ghost V0 = self.values@;')
    L = f.loop(0).kind('for').iter('it')
    L.invariants(('frame', 'self.values@ == V0 && V0 == old(self).values@ && self.compression_mode == old(self).compression_mode && self.compressed_count == old(self).compressed_count && obeys_key_model::<Id>()'),
                 ('seen_sound', 'forall|i: int| 0 <= i < it.seq().len() ==> V0.contains_key(*(#[trigger] it.seq()[i]).0) && V0[*it.seq()[i].0] == *it.seq()[i].1'),
                 ('seen_complete', 'forall|kk: Id| V0.contains_key(kk) ==> exists|i: int| 0 <= i < it.seq().len() && *it.seq()[i].0 == kk'),
                 ('length', 'it.seq().len() == V0.len() && V0.dom().finite() && V0.len() < u64::MAX'),
                 ('counters', 'zone_map.row_count == it.index@ && zone_map.null_count <= zone_map.row_count'),
                 ('non_null_seen', '(exists|j: int| 0 <= j < it.index@ && !(*(#[trigger] it.seq()[j]).1 is Null)) ==> zone_map.null_count < zone_map.row_count && zone_map.min is Some && zone_map.max is Some'))
    L.after('''proof {
    assert forall|k: Id| V0.contains_key(k) && !(V0[k] is Null) implies zone_map.null_count < zone_map.row_count && zone_map.min is Some && zone_map.max is Some by {
        if V0.contains_key(k) { }
    }
}''')
    u.assume('counter discipline => premise of ZONE_PRUNE: the n-call statement "non-NULL writes == row_count - null_count" is the induction over set() whose step is proved here')
    u.not_covered += ['PropertyColumn::{compress, decompress_all, get} and PropertyStorage (RwLock<FxHashMap<PropertyKey, PropertyColumn>>)']
    return u
