"""Unit DICTIONARY (C15): DictionaryBuilder::{new, add, add_null, add_optional, build} and DictionaryEncoding::{new, with_nulls, len, is_null, get}
- decoding what was encoded returns the original column of optional strings (unbounded).

Strings are opaque here (rule E1): `Arc<str>` / `&str` become `Str` / `&Str`, a stand-in with structural equality, hashing and cloning
(Verus has no model of str); the dictionary `Arc<[Arc<str>]>` becomes `Vec<Str>`.  Everything the codec does with strings is store, compare
for equality through the hash map, and hand back - which is what the stand-in offers."""
import re

from vlib import Unit

SRC = 'crates/grafeo-core/src/storage/dictionary.rs'

TEMPLATE = r'''
use vstd::prelude::*;
use std::collections::HashMap;
use vstd::std_specs::hash::*;
verus! {
broadcast use vstd::std_specs::hash::group_hash_axioms;
// E1 stand-in for str / Arc<str>
#[verifier::external_body] #[derive(PartialEq, Eq)] pub struct Str { _p: () }
impl std::hash::Hash for Str { #[verifier::external_body] fn hash<H: std::hash::Hasher>(&self, state: &mut H) { } }
impl Clone for Str { #[verifier::external_body] fn clone(&self) -> (r: Self) ensures r == *self { unimplemented!() } }
pub proof fn axiom_str_keys() ensures obeys_key_model::<Str>() { admit(); }

pub open spec fn bit(w: u64, k: int) -> bool { (w >> (k as u64)) & 1 == 1 }
proof fn lemma_test_bit(w: u64, k: u64)
    requires k < 64
    ensures ((w & (1u64 << k)) != 0) == bit(w, k as int)
{ assert(k < 64 ==> (((w & (1u64 << k)) != 0) == ((w >> k) & 1 == 1))) by (bit_vector); }
proof fn lemma_set_bit(w: u64, k: u64, j: u64)
    requires k < 64, j < 64
    ensures bit(w | (1u64 << k), j as int) == (j == k || bit(w, j as int))
{ assert(k < 64 && j < 64 ==> ((((w | (1u64 << k)) >> j) & 1 == 1) == (j == k || ((w >> j) & 1 == 1)))) by (bit_vector); }
proof fn lemma_zero_bit(j: u64) requires j < 64 ensures !bit(0u64, j as int)
{ assert(j < 64 ==> !((0u64 >> j) & 1 == 1)) by (bit_vector); }

@@DictionaryEncoding@@

pub open spec fn null_at(bm: Option<Vec<u64>>, i: int) -> bool {
    bm is Some && i / 64 < bm->0@.len() && bit(bm->0@[i / 64], i % 64)
}
impl DictionaryEncoding {
    /// the decoded column: None for a null row (or a code outside the dictionary), Some(string) otherwise
    pub open spec fn view(&self) -> Seq<Option<Str>> {
        Seq::new(self.codes@.len(), |i: int| if null_at(self.null_bitmap, i) || self.codes@[i] as int >= self.dictionary@.len() { None } else { Some(self.dictionary@[self.codes@[i] as int]) })
    }

    @@DictionaryEncoding::new@@

    @@DictionaryEncoding::with_nulls@@

    @@DictionaryEncoding::len@@

    @@DictionaryEncoding::is_null@@

    @@DictionaryEncoding::get@@
}

pub open spec fn np_has(np: Seq<usize>, i: int) -> bool { exists|k: int| 0 <= k < np.len() && #[trigger] np[k] as int == i }

@@DictionaryBuilder@@

impl DictionaryBuilder {
    /// Representation invariant of the builder: the map and the dictionary are inverse, codes are in range, null positions are rows.
    pub open spec fn wf(&self) -> bool {
        &&& self.dictionary@.len() <= u32::MAX
        &&& forall|s: Str| #[trigger] self.string_to_code@.contains_key(s) ==> (self.string_to_code@[s] as int) < self.dictionary@.len() && self.dictionary@[self.string_to_code@[s] as int] == s
        &&& forall|i: int| 0 <= i < self.dictionary@.len() ==> self.string_to_code@.contains_key(#[trigger] self.dictionary@[i])
        &&& forall|i: int| 0 <= i < self.codes@.len() ==> (#[trigger] self.codes@[i] as int) < self.dictionary@.len() || np_has(self.null_positions@, i)
        &&& forall|k: int| 0 <= k < self.null_positions@.len() ==> #[trigger] self.null_positions@[k] < self.codes@.len()
    }
    /// what has been added so far
    pub open spec fn view(&self) -> Seq<Option<Str>> {
        Seq::new(self.codes@.len(), |i: int| if np_has(self.null_positions@, i) { None } else { Some(self.dictionary@[self.codes@[i] as int]) })
    }

    @@DictionaryBuilder::new@@

    @@DictionaryBuilder::add@@

    @@DictionaryBuilder::add_null@@

    @@DictionaryBuilder::add_optional@@

    @@DictionaryBuilder::build@@
}

// ---- C15 round trip, unbounded, over the contracts alone: add a column of optional strings, build, read every row back ----
fn roundtrip(values: &Vec<Option<Str>>) -> (enc: DictionaryEncoding)
    requires values@.len() < u32::MAX - 64,
    ensures enc.view() == values@,
{
    let mut b = DictionaryBuilder::new();
    for i in 0..values.len()
        invariant b.wf(), b.view() == values@.take(i as int), b.dictionary@.len() <= i, values@.len() < u32::MAX - 64, b.codes@.len() == i,
    {
        let ghost before = b.view();
        match &values[i] {
            Some(s) => { b.add(s); }
            None => { b.add_null(); }
        }
        proof { assert(values@.take(i + 1) =~= values@.take(i as int).push(values@[i as int])); }
    }
    proof { assert(values@.take(values@.len() as int) =~= values@); }
    b.build()
}
fn read_back(enc: &DictionaryEncoding, i: usize) -> (r: Option<&Str>)
    requires i < enc.view().len(),
    ensures match r { Some(s) => enc.view()[i as int] == Some(*s), None => enc.view()[i as int] is None },
{
    enc.get(i)
}

} // verus!
fn main() {}
'''


def e1(p):
    p.resub_opt('E1', r'Arc<\[Arc<str>\]>', 'Vec<Str>')
    p.resub_opt('E1', r'Arc<str>', 'Str')
    p.resub_opt('E1', r'&str\b', '&Str')
    return p


def build(repo):
    u = Unit('dictionary', ['C15'], repo, TEMPLATE)
    for w, why in [('external_body Str', 'E1: str / Arc<str> are opaque; only structural equality, hashing and cloning are used'), ('external_body Str::hash', 'E1'),
                   ('external_body Str::clone', 'E1: cloning a string yields an equal string'), ('admit axiom_str_keys', 'str Hash/Eq are lawful (std)')]:
        u.trust(w, why)
    e1(u.item(SRC, 'struct', 'DictionaryEncoding').D1(keep_derive=set()).V1())
    e1(u.item(SRC, 'struct', 'DictionaryBuilder').D1(keep_derive=set()).V1())

    f = e1(u.method(SRC, 'DictionaryEncoding', 'new').D1().ret('r'))
    f.ensures('fields', 'r.dictionary == dictionary && r.codes == codes && r.null_bitmap is None')
    f = e1(u.method(SRC, 'DictionaryEncoding', 'with_nulls').D1().M3().ret('r'))
    f.ensures('fields', 'r.dictionary == self.dictionary && r.codes == self.codes && r.null_bitmap == Some(null_bitmap)')
    f = u.method(SRC, 'DictionaryEncoding', 'len').D1().ret('r')
    f.ensures('len', 'r == self.codes@.len()')
    f = u.method(SRC, 'DictionaryEncoding', 'is_null').D1().ret('r')
    f.ensures('bitmap', 'r == null_at(self.null_bitmap, index as int)')
    f.before('return (bitmap[word_idx]', 'proof { lemma_test_bit(bitmap@[word_idx as int], bit_idx as u64); }', optional=True)
    f = e1(u.method(SRC, 'DictionaryEncoding', 'get').D1().ret('r'))
    f.resub_opt('X1', r' as &u32;', ';')                       # a no-op cast Verus does not parse
    f.resub_opt('X1', r'\.map\(\|s\| s\.as_ref\(\)\)', '')   # &Arc<str> -> &str; with the E1 stand-in the element already is &Str
    f.ensures('random_access_agrees_with_decoding', 'index < self.codes@.len() ==> (match r { Some(s) => self.view()[index as int] == Some(*s), None => self.view()[index as int] is None })')
    f.ensures('out_of_range', 'index >= self.codes@.len() ==> r is None')

    f = u.method(SRC, 'DictionaryBuilder', 'new').D1().ret('r')
    f.ensures('empty', 'r.wf() && r.view() == Seq::<Option<Str>>::empty() && r.dictionary@.len() == 0 && r.codes@.len() == 0')
    f.body_start('proof { axiom_str_keys(); }')
    f.before_tail('let r__ = ')
    f.body_end(';\nproof { assert(r__.view() =~= Seq::<Option<Str>>::empty()); }\nr__')
    f = e1(u.method(SRC, 'DictionaryBuilder', 'add').D1().R22().ret('r'))
    f.resub('E1', r'value\.into\(\)', 'value.clone()')
    f.requires('wf', 'old(self).wf()')
    f.requires('code_space', 'old(self).dictionary@.len() < u32::MAX')     # machine range: codes are u32
    f.ensures('wf', 'final(self).wf()')
    f.ensures('appends_the_value', 'final(self).view() == old(self).view().push(Some(*value))')
    f.ensures('dictionary_grows_by_at_most_one', 'final(self).dictionary@.len() <= old(self).dictionary@.len() + 1 && final(self).codes@.len() == old(self).codes@.len() + 1')
    f.body_start('proof { axiom_str_keys(); }\nlet ghost v0 = self.view();')
    f.after('self.codes.push(code);', 'proof { assert(self.view() =~= v0.push(Some(*value))); }', nth=0, optional=True)
    f.after('self.codes.push(code);', 'proof { assert(self.view() =~= v0.push(Some(*value))); }', nth=1, optional=True)
    f = u.method(SRC, 'DictionaryBuilder', 'add_null').D1()
    f.requires('wf', 'old(self).wf()')
    f.ensures('wf', 'final(self).wf()')
    f.ensures('appends_a_null', 'final(self).view() == old(self).view().push(None)')
    f.ensures('dictionary_unchanged', 'final(self).dictionary@ == old(self).dictionary@ && final(self).codes@.len() == old(self).codes@.len() + 1')
    f.body_start('let ghost v0 = self.view(); let ghost np0 = self.null_positions@;')
    f.body_end('''proof {
    let idx = np0.len() as int;
    assert(self.null_positions@[idx] as int == v0.len());
    assert forall|i: int| 0 <= i < v0.len() implies #[trigger] np_has(self.null_positions@, i) == np_has(np0, i) by {
        if np_has(np0, i) { let k = choose|k: int| 0 <= k < np0.len() && np0[k] as int == i; assert(self.null_positions@[k] as int == i); }
        if np_has(self.null_positions@, i) { let k = choose|k: int| 0 <= k < self.null_positions@.len() && self.null_positions@[k] as int == i; assert(k < np0.len()); assert(np0[k] as int == i); }
    }
    assert(np_has(self.null_positions@, v0.len() as int));
    assert(self.view() =~= v0.push(None));
}''')
    f = e1(u.method(SRC, 'DictionaryBuilder', 'add_optional').D1().ret('r'))
    f.requires('wf', 'old(self).wf() && old(self).dictionary@.len() < u32::MAX')
    f.ensures('wf', 'final(self).wf()')
    f.ensures('appends', 'final(self).view() == old(self).view().push(match value { Some(v) => Some(*v), None => None })')

    f = e1(u.method(SRC, 'DictionaryBuilder', 'build').D1().R1().ret('r'))
    f.resub('R2', r'in &self\.null_positions \{', 'in self.null_positions.iter() {')
    f.resub('E1', r'self\.dictionary\.into\(\)', 'self.dictionary')
    f.requires('wf', 'self.wf()')
    f.requires('length_room', 'self.codes@.len() <= usize::MAX - 63')        # machine range of `(len + 63) / 64`
    f.ensures('decodes_to_what_was_added', 'r.view() == self.view()')
    f.body_start('let ghost v0 = self.view(); let ghost np0 = self.null_positions@; let ghost n0 = self.codes@.len();')
    L = f.loop(0).kind('for').iter('it')
    L.invariants(('shape', 'bitmap@.len() == num_words && num_words == (self.codes@.len() + 63) / 64 && self.wf()'),
                 ('iter', 'it.seq().len() == self.null_positions@.len() && forall|k: int| 0 <= k < it.seq().len() ==> *(#[trigger] it.seq()[k]) == self.null_positions@[k]'),
                 ('bits', 'forall|i: int| 0 <= i < num_words * 64 ==> (#[trigger] bit(bitmap@[i / 64], i % 64) == np_has(self.null_positions@.take(it.index@ as int), i))'))
    L.before('''proof {
    assert forall|i: int| 0 <= i < num_words * 64 implies (#[trigger] bit(bitmap@[i / 64], i % 64) == np_has(self.null_positions@.take(0), i)) by { lemma_zero_bit((i % 64) as u64); }
}''')
    L.body_start('let ghost old_bm = bitmap@;')
    L.body_end('''proof {
    let t0 = self.null_positions@.take(it.index@ as int);
    let t1 = self.null_positions@.take(it.index@ + 1);
    assert(t1 =~= t0.push(pos));
    assert forall|i: int| 0 <= i < num_words * 64 implies (#[trigger] bit(bitmap@[i / 64], i % 64) == np_has(t1, i)) by {
        lemma_set_bit(old_bm[word_idx as int], bit_idx as u64, (i % 64) as u64);
        if np_has(t0, i) { let k = choose|k: int| 0 <= k < t0.len() && t0[k] as int == i; assert(t1[k] as int == i); }
        if np_has(t1, i) { let k = choose|k: int| 0 <= k < t1.len() && t1[k] as int == i; if k < t0.len() { assert(t0[k] as int == i); } }
        if i == pos as int { assert(t1[t0.len() as int] as int == i); }
    }
}''')
    L.after('proof { assert(self.null_positions@.take(self.null_positions@.len() as int) =~= self.null_positions@); }')
    f.before('let dict', '''proof {
    assert(null_bitmap is None ==> np0.len() == 0);
    assert(null_bitmap is Some ==> null_bitmap->0@.len() == (n0 + 63) / 64 && forall|i: int| 0 <= i < null_bitmap->0@.len() * 64 ==> (#[trigger] bit(null_bitmap->0@[i / 64], i % 64) == np_has(np0, i)));
}''')
    f.before_tail('''proof {
    assert forall|i: int| 0 <= i < n0 implies #[trigger] encoding.view()[i] == v0[i] by {
        if null_bitmap is Some { assert(i / 64 < null_bitmap->0@.len()); assert(bit(null_bitmap->0@[i / 64], i % 64) == np_has(np0, i)); }
    }
    assert(encoding.view() =~= v0);
}''')
    u.not_covered += ['DictionaryEncoding::{get_code, iter, encode (linear search), filter_by_code, compression_ratio (f64)}, DictionaryBuilder::{with_capacity, clear}, IntoDictionaryEncoding',
                      'the strings themselves (opaque stand-in)']
    return u
