"""Unit PUSHLIMIT (C11, C17): "SKIP s LIMIT n returns rows s..s+n" for the push-based operators LimitPushOperator / SkipPushOperator / SkipLimitPushOperator:
across any sequence of pushed chunks (any sizes, with or without a selection vector) the rows handed to the sink are exactly the requested slice of the
concatenated input, in order.  DataChunk / SelectionVector / the sink are opaque stand-ins; the contracts of DataChunk::{len, filter, slice} and
SelectionVector::{new_all, from_predicate} are ASSUMED, written from their bodies in chunk.rs / selection.rs (including the `assert!(count <= MAX_CAPACITY)` of
new_all as a precondition and the u16 index width of from_predicate)."""
import re

from vlib import Unit

SRC = 'crates/grafeo-core/src/execution/operators/push/limit.rs'

TEMPLATE = r'''
use vstd::prelude::*;
verus! {
global size_of usize == 8;
#[verifier::external_body] pub struct Row { _p: () }
#[verifier::external_body] pub struct OperatorError { _p: () }
#[verifier::external_body] pub struct ChunkSizeHint { _p: () }

// ---- ASSUMED contracts of the chunk layer (execution/chunk.rs, execution/selection.rs), written from the bodies ----------------------
#[verifier::external_body] pub struct DataChunk { _p: () }
impl DataChunk {
    /// the physical rows of the columns and the optional selection vector (physical indices, in order)
    pub uninterp spec fn phys(&self) -> Seq<Row>;
    pub uninterp spec fn sel(&self) -> Option<Seq<int>>;
    pub open spec fn wf(&self) -> bool { self.sel() is Some ==> forall|k: int| 0 <= k < self.sel()->0.len() ==> 0 <= #[trigger] self.sel()->0[k] < self.phys().len() }
    /// the LOGICAL rows: what row_count() counts and selected_indices() enumerates
    pub open spec fn rows(&self) -> Seq<Row> { match self.sel() { None => self.phys(), Some(s) => Seq::new(s.len(), |k: int| self.phys()[s[k]]) } }
    #[verifier::external_body] pub fn len(&self) -> (r: usize) ensures r == self.rows().len() { unimplemented!() }
    /// chunk.rs filter(): the picks, in order, that are physically present and (if the chunk has a selection) selected; the result has no selection
    #[verifier::external_body] pub fn filter(&self, predicate: &SelectionVector) -> (r: DataChunk)
        ensures r.sel() is None, r.phys() == filter_rows(*self, predicate.picks()) { unimplemented!() }
    /// chunk.rs slice(): logical rows [offset, offset + count) clipped to the chunk; the result has no selection
    #[verifier::external_body] pub fn slice(&self, offset: usize, count: usize) -> (r: DataChunk)
        requires self.wf()
        ensures r.sel() is None, r.wf(),
            (offset >= self.rows().len() || count == 0) ==> r.phys() == Seq::<Row>::empty(),
            (offset < self.rows().len() && count > 0) ==> r.phys() == self.rows().subrange(offset as int, offset + (if count <= self.rows().len() - offset { count as int } else { self.rows().len() - offset })),
    { unimplemented!() }
}
pub open spec fn keeps(c: DataChunk, idx: int) -> bool { 0 <= idx < c.phys().len() && (c.sel() is None || c.sel()->0.contains(idx)) }
pub open spec fn filter_rows(c: DataChunk, picks: Seq<int>) -> Seq<Row> decreases picks.len()
{ if picks.len() == 0 { Seq::empty() } else { let p = filter_rows(c, picks.drop_last()); if keeps(c, picks.last()) { p.push(c.phys()[picks.last()]) } else { p } } }
/// instantiation handle for the threshold form of from_predicate's contract
pub open spec fn thresh(s: usize) -> bool { true }
#[verifier::external_body] pub struct SelectionVector { _p: () }
impl SelectionVector {
    pub uninterp spec fn picks(&self) -> Seq<int>;
    /// selection.rs new_all(): `assert!(count <= MAX_CAPACITY)` (65535) is the precondition - a larger count PANICS
    #[verifier::external_body] pub fn new_all(count: usize) -> (r: Self)
        requires count <= 65535
        ensures r.picks() == Seq::new(count as nat, |i: int| i) { unimplemented!() }
    /// selection.rs from_predicate(): indices are stored as u16 (`i as u16`): only for count <= 65536 are they the indices the predicate accepted
    #[verifier::external_body] pub fn from_predicate<F: Fn(usize) -> bool>(count: usize, predicate: F) -> (r: Self)
        requires forall|i: usize| i < count ==> #[trigger] predicate.requires((i,))
        ensures forall|s: usize| #[trigger] thresh(s) && s <= count && count <= 65536 && (forall|i: usize, b: bool| i < count && #[trigger] predicate.ensures((i,), b) ==> b == (i >= s)) ==> r.picks() == Seq::new((count - s) as nat, |j: int| j + s)
    { unimplemented!() }
}
/// E1: `&mut dyn Sink` - what the downstream has been handed so far
#[verifier::external_body] pub struct SinkLog { _p: () }
impl SinkLog {
    pub uninterp spec fn log(&self) -> Seq<Row>;
    #[verifier::external_body] pub fn consume(&mut self, chunk: DataChunk) -> (r: Result<bool, OperatorError>)
        ensures r is Ok ==> final(self).log() == old(self).log() + chunk.rows() { unimplemented!() }
}

proof fn lemma_filter_range(c: DataChunk, s: int, n: int)
    requires c.sel() is None, 0 <= s, 0 <= n, s + n <= c.phys().len()
    ensures filter_rows(c, Seq::new(n as nat, |j: int| j + s)) == c.phys().subrange(s, s + n)
    decreases n
{
    let picks = Seq::new(n as nat, |j: int| j + s);
    if n == 0 { assert(c.phys().subrange(s, s) =~= Seq::<Row>::empty()); }
    else {
        lemma_filter_range(c, s, n - 1);
        assert(picks.drop_last() =~= Seq::new((n - 1) as nat, |j: int| j + s));
        assert(picks.last() == s + n - 1);
        assert(c.phys().subrange(s, s + n) =~= c.phys().subrange(s, s + n - 1).push(c.phys()[s + n - 1]));
    }
}
pub open spec fn min_int(a: int, b: int) -> int { if a <= b { a } else { b } }

@@LimitPushOperator@@
impl LimitPushOperator {
    pub open spec fn wf(&self) -> bool { self.passed <= self.limit }
    @@LimitPushOperator::new@@
    @@LimitPushOperator::is_exhausted@@
    @@LimitPushOperator::push@@
}
@@SkipPushOperator@@
impl SkipPushOperator {
    pub open spec fn wf(&self) -> bool { self.skipped <= self.skip }
    @@SkipPushOperator::new@@
    @@SkipPushOperator::skip_complete@@
    @@SkipPushOperator::push@@
}
@@SkipLimitPushOperator@@
impl SkipLimitPushOperator {
    @@SkipLimitPushOperator::new@@
    @@SkipLimitPushOperator::push@@
}

// ---- "SKIP s LIMIT n returns rows s..s+n", over the contracts: one more chunk extends the emitted slice of the concatenated input correctly ----
proof fn lemma_limit_stream(pre: Seq<Row>, c: Seq<Row>, limit: int)
    requires limit >= 0
    ensures (pre + c).take(min_int(limit, (pre + c).len() as int)) == pre.take(min_int(limit, pre.len() as int)) + c.take(min_int(limit - min_int(limit, pre.len() as int), c.len() as int))
{
    let a = min_int(limit, pre.len() as int);
    assert((pre + c).take(min_int(limit, (pre + c).len() as int)) =~= pre.take(a) + c.take(min_int(limit - a, c.len() as int)));
}
proof fn lemma_skip_stream(pre: Seq<Row>, c: Seq<Row>, skip: int)
    requires skip >= 0
    ensures (pre + c).skip(min_int(skip, (pre + c).len() as int)) == pre.skip(min_int(skip, pre.len() as int)) + c.skip(min_int(skip - min_int(skip, pre.len() as int), c.len() as int))
{
    let a = min_int(skip, pre.len() as int);
    assert((pre + c).skip(min_int(skip, (pre + c).len() as int)) =~= pre.skip(a) + c.skip(min_int(skip - a, c.len() as int)));
}

} // verus!
fn main() {}
'''

TAKE = 'min_int(old(self).limit - old(self).passed, chunk.rows().len() as int)'
DROP = 'min_int(old(self).skip - old(self).skipped, chunk.rows().len() as int)'


def sink_rules(f):
    f.resub('E1', r'sink: &mut dyn Sink', 'sink: &mut SinkLog')
    # the threshold closure of from_predicate gets a contract (R10); its body is kept verbatim
    f.resub_opt('R10', r'\|i\| i >= start', '|i: usize| -> (r: bool) ensures r == (i >= start) { i >= start }')
    return f


def build(repo):
    u = Unit('pushlimit', ['C11', 'C17'], repo, TEMPLATE)
    for w, why in [('external_body struct Row', 'E1: a row of values, opaque'), ('external_body struct OperatorError', 'E1'), ('external_body struct ChunkSizeHint', 'E1'),
                   ('external_body struct DataChunk', 'E1: columnar batch; abstract state = physical rows + optional selection vector'),
                   ('external_body DataChunk::len', 'ASSUMED from chunk.rs: row_count() = selection length, or the physical count'),
                   ('external_body DataChunk::filter', 'ASSUMED from chunk.rs filter(): predicate indices are PHYSICAL indices, intersected with the chunk\'s own selection'),
                   ('external_body DataChunk::slice', 'ASSUMED from chunk.rs slice(): logical rows [offset, offset+count), through the selection vector if there is one'),
                   ('external_body struct SelectionVector', 'E1'), ('external_body SelectionVector::new_all', 'ASSUMED from selection.rs: asserts count <= 65535, selects 0..count'),
                   ('external_body SelectionVector::from_predicate', 'ASSUMED from selection.rs (u16 indices), stated for threshold predicates'),
                   ('external_body struct SinkLog', 'E1: stand-in for `&mut dyn Sink`; abstract state = the rows consumed so far'), ('external_body SinkLog::consume', 'E1: a sink appends the chunk\'s logical rows')]:
        u.trust(w, why)
    u.assume('a sink that returns Err is not constrained; chunks handed in are well formed (selection indices inside the physical rows)')
    u.item(SRC, 'struct', 'LimitPushOperator').D1(keep_derive=set()).V1()
    u.item(SRC, 'struct', 'SkipPushOperator').D1(keep_derive=set()).V1()
    u.item(SRC, 'struct', 'SkipLimitPushOperator').D1(keep_derive=set()).V1()

    f = u.method(SRC, 'LimitPushOperator', 'new').D1().ret('r')
    f.ensures('fresh', 'r.limit == limit && r.passed == 0 && r.wf()')
    f = u.method(SRC, 'LimitPushOperator', 'is_exhausted').D1().ret('r')
    f.ensures('def', 'r == (self.passed >= self.limit)')
    f = sink_rules(u.method(SRC, 'LimitPushOperator', 'push', trait='PushOperator').D1().ret('res'))
    f.requires('wf', 'old(self).wf() && chunk.wf()')
    f.ensures('emits_exactly_the_rows_still_wanted', 'res is Ok ==> final(self).wf() && final(self).limit == old(self).limit && final(self).passed == old(self).passed + %s'
              ' && final(sink).log() == old(sink).log() + chunk.rows().take(%s)' % (TAKE, TAKE))
    f.ensures('continues_only_below_the_limit', '(res matches Ok(true)) ==> final(self).passed < final(self).limit')
    f.before('let truncated = chunk.filter(&selection);', 'proof { if chunk.sel() is None { lemma_filter_range(chunk, 0, remaining as int); } }', optional=True)
    f.before_tail('proof { assert(chunk.rows().take(chunk.rows().len() as int) =~= chunk.rows()); assert(chunk.rows().take(0) =~= Seq::<Row>::empty()); }') if False else None
    f.body_start('proof { assert(chunk.rows().take(chunk.rows().len() as int) =~= chunk.rows()); assert(chunk.rows().take(0) =~= Seq::<Row>::empty()); assert(sink.log() + Seq::<Row>::empty() =~= sink.log()); }')

    f = u.method(SRC, 'SkipPushOperator', 'new').D1().ret('r')
    f.ensures('fresh', 'r.skip == skip && r.skipped == 0 && r.wf()')
    f = u.method(SRC, 'SkipPushOperator', 'skip_complete').D1().ret('r')
    f.ensures('def', 'r == (self.skipped >= self.skip)')
    f = sink_rules(u.method(SRC, 'SkipPushOperator', 'push', trait='PushOperator').D1().ret('res'))
    f.requires('wf', 'old(self).wf() && chunk.wf()')
    f.ensures('drops_exactly_the_rows_still_to_skip', 'res is Ok ==> final(self).wf() && final(self).skip == old(self).skip && final(self).skipped == old(self).skipped + %s'
              ' && final(sink).log() == old(sink).log() + chunk.rows().skip(%s)' % (DROP, DROP))
    f.body_start('proof { assert(chunk.rows().skip(0) =~= chunk.rows()); assert(chunk.rows().skip(chunk.rows().len() as int) =~= Seq::<Row>::empty()); assert(sink.log() + Seq::<Row>::empty() =~= sink.log()); }')
    f.before('let passed = chunk.filter(&selection);', 'proof { assert(thresh(start)); if chunk.sel() is None && chunk_len <= 65536 { lemma_filter_range(chunk, start as int, chunk_len - start); } }', optional=True)

    f = u.method(SRC, 'SkipLimitPushOperator', 'new').D1().ret('r')
    f.ensures('fresh', 'r.skip.skip == skip && r.skip.skipped == 0 && r.limit.limit == limit && r.limit.passed == 0')
    f = sink_rules(u.method(SRC, 'SkipLimitPushOperator', 'push', trait='PushOperator').D1().ret('res'))
    f.requires('wf', 'old(self).skip.wf() && old(self).limit.wf() && chunk.wf()')
    D2 = 'min_int(old(self).skip.skip - old(self).skip.skipped, chunk.rows().len() as int)'
    T2 = 'min_int(old(self).limit.limit - old(self).limit.passed, chunk.rows().len() - %s)' % D2
    f.ensures('skip_then_limit', 'res is Ok ==> final(self).skip.wf() && final(self).limit.wf() && final(self).skip.skip == old(self).skip.skip && final(self).limit.limit == old(self).limit.limit'
              ' && (old(self).limit.passed >= old(self).limit.limit ==> final(sink).log() == old(sink).log() && final(self).limit.passed == old(self).limit.passed)'
              ' && (old(self).limit.passed < old(self).limit.limit ==> final(self).skip.skipped == old(self).skip.skipped + %s && final(self).limit.passed == old(self).limit.passed + %s'
              ' && final(sink).log() == old(sink).log() + chunk.rows().skip(%s).take(%s))' % (D2, T2, D2, T2))
    f.body_start('proof { assert(chunk.rows().skip(0) =~= chunk.rows()); assert(chunk.rows().skip(chunk.rows().len() as int) =~= Seq::<Row>::empty()); assert(Seq::<Row>::empty().take(0) =~= Seq::<Row>::empty()); assert(sink.log() + Seq::<Row>::empty() =~= sink.log()); }')
    f.before('let passed = chunk.filter(&selection);', 'proof { assert(thresh(start)); if chunk.sel() is None && chunk_len <= 65536 { lemma_filter_range(chunk, start as int, chunk_len - start); } }', optional=True)
    u.not_covered += ['the pull operators LimitOperator / SkipOperator / LimitSkipOperator (operators/limit.rs: row-copy loops over DataChunkBuilder, let-else, iterator adapters - a bounded Kani attempt did not finish)',
                      'DataChunk::{filter, slice}, SelectionVector::{new_all, from_predicate} themselves (assumed from their bodies)', 'push_through / Pipeline (dyn dispatch)', 'DISTINCT, UNION ALL, COUNT identities']
    return u
