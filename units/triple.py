"""Unit TRIPLE (C13): TriplePattern::matches and Triple accessors - the re-filter every index path of RdfStore::find relies on."""
from vlib import Unit

SRC = 'crates/grafeo-core/src/graph/rdf/triple.rs'

TEMPLATE = r'''
use vstd::prelude::*;
verus! {
// E1 stand-in: grafeo_core::graph::rdf::Term is opaque here; only its (derived, structural) equality is used
#[verifier::external_body] #[derive(PartialEq, Eq)] pub struct Term { _p: () }
impl vstd::std_specs::cmp::PartialEqSpecImpl for Term {
    open spec fn obeys_eq_spec() -> bool { true }
    open spec fn eq_spec(&self, other: &Term) -> bool { *self == *other }
}
pub assume_specification[ <Term as PartialEq>::eq ](a: &Term, b: &Term) -> (r: bool) ensures r == (*a == *b);

@@Triple@@
impl Triple {
    @@Triple::new_unchecked@@
    @@Triple::subject@@
    @@Triple::predicate@@
    @@Triple::object@@
}
@@TriplePattern@@

/// "every lookup by subject, predicate, object or any combination returns exactly the matching triples"
pub open spec fn pattern_matches(p: TriplePattern, t: Triple) -> bool {
    (p.subject is None || p.subject->0 == t.subject)
    && (p.predicate is None || p.predicate->0 == t.predicate)
    && (p.object is None || p.object->0 == t.object)
}

impl TriplePattern {
    @@TriplePattern::any@@
    @@TriplePattern::matches@@
}

// the all-wildcard pattern matches every triple (so find(any) enumerates the whole set)
proof fn lemma_any_matches_all(p: TriplePattern, t: Triple)
    requires p.subject is None, p.predicate is None, p.object is None
    ensures pattern_matches(p, t)
{ }

} // verus!
fn main() {}
'''


def build(repo):
    u = Unit('triple', ['C13'], repo, TEMPLATE, edition2024=True)
    u.trust('external_body struct Term', 'rule E1: Term (enum over ArcStr literals) is opaque; only equality is used')
    u.trust('assume_specification <Term as PartialEq>::eq', 'derived PartialEq of Term is structural equality')
    u.item(SRC, 'struct', 'Triple').D1(keep_derive=set()).V1()
    u.item(SRC, 'struct', 'TriplePattern').D1(keep_derive=set())
    f = u.method(SRC, 'Triple', 'new_unchecked').D1().ret('r')
    f.ensures('fields', 'r.subject == subject && r.predicate == predicate && r.object == object')
    for n in ('subject', 'predicate', 'object'):
        f = u.method(SRC, 'Triple', n).D1().ret('r')
        f.ensures('field', '*r == self.%s' % n)
    f = u.method(SRC, 'TriplePattern', 'any').D1().ret('r')
    f.ensures('wildcard', 'r.subject is None && r.predicate is None && r.object is None')
    f = u.method(SRC, 'TriplePattern', 'matches').D1().R6().ret('r')
    f.ensures('spec', 'r == pattern_matches(*self, *triple)')
    u.not_covered += ['RdfStore::{insert, remove, find, contains, ...} (four separately locked FxHash structures)', 'SPARQL parser / translator / planner_rdf / operators',
                      'Triple::new (debug_assert on Term kinds), Quad']
    return u
