"""Unit SELECTOR (C15): CodecSelector::select_for_integers only picks a codec whose losslessness precondition holds, for EVERY input length:
DeltaBitPacked (saturating deltas: lossy on unsorted input) only for sorted input; BitPacked { bits } only when every value fits in `bits` bits.
Replaces the bounded Kani harness (len <= 8) as the deciding check; the Kani harness stays as a cross-check.
The ratio estimates are floats: `RunLengthAnalyzer::{estimate_ratio, average_run_length}` are opaque callees, `64.0 / bits as f64` an opaque helper (E4) -
they decide WHICH admissible codec is chosen, never whether a codec is admissible."""
from vlib import Unit

SRC = 'crates/grafeo-core/src/storage/codec.rs'

TEMPLATE = r'''
use vstd::prelude::*;
verus! {
global size_of usize == 8;
pub open spec fn mask_of(bits: u64) -> u64 { if bits >= 64 { u64::MAX } else { ((1u64 << bits) - 1) as u64 } }
pub open spec fn sorted(s: Seq<u64>) -> bool { forall|i: int, j: int| 0 <= i <= j < s.len() ==> s[i] <= s[j] }
pub open spec fn adjacent_sorted(s: Seq<u64>, n: int) -> bool { forall|k: int| 1 <= k < n ==> s[k - 1] <= #[trigger] s[k] }
proof fn lemma_adjacent_sorted(s: Seq<u64>)
    requires adjacent_sorted(s, s.len() as int)
    ensures sorted(s)
{
    assert forall|i: int, j: int| 0 <= i <= j < s.len() implies s[i] <= s[j] by { lemma_chain(s, i, j); }
}
proof fn lemma_chain(s: Seq<u64>, i: int, j: int)
    requires adjacent_sorted(s, s.len() as int), 0 <= i <= j < s.len()
    ensures s[i] <= s[j]
    decreases j - i
{ if i < j { lemma_chain(s, i, j - 1); assert(s[j - 1] <= s[j]); } }

@@CompressionCodec@@
// rule R16: the fold step of Iterator::max over u64 (verified)
fn opt_max_u64(a: Option<u64>, b: u64) -> (r: Option<u64>)
    ensures r is Some, (r->0) >= b, a is Some ==> (r->0) >= (a->0), r == Some(b) || r == a,
{ match a { None => Some(b), Some(cur) => if b > cur { Some(b) } else { Some(cur) } } }
// ASSUMED callees
pub struct RunLengthAnalyzer;
impl RunLengthAnalyzer {
    #[verifier::external_body] pub fn estimate_ratio(values: &[u64]) -> f64 { unimplemented!() }
    #[verifier::external_body] pub fn average_run_length(values: &[u64]) -> f64 { unimplemented!() }
}
pub struct BitPackedInts;
impl BitPackedInts {
    /// contract proved by Kani unit codec_kani (bits_needed::*), restated
    #[verifier::external_body] pub fn bits_needed(v: u64) -> (r: u8) ensures 1 <= r <= 64, v <= mask_of(r as u64) { unimplemented!() }
}
// E4: `64.0 / bits as f64`
#[verifier::external_body] fn ratio_of_bits(bits: u8) -> f64 { 64.0 / bits as f64 }

pub struct CodecSelector;
impl CodecSelector {
    @@CodecSelector::select_for_integers@@
}
} // verus!
fn main() {}
'''


def build(repo):
    u = Unit('selector', ['C15'], repo, TEMPLATE)
    for w, why in [('external_body RunLengthAnalyzer::estimate_ratio', 'ASSUMED callee: an f64 estimate, not constrained'), ('external_body RunLengthAnalyzer::average_run_length', 'ASSUMED callee: an f64 estimate, not constrained'),
                   ('external_body BitPackedInts::bits_needed', 'contract proved by Kani unit codec_kani, restated'), ('external_body ratio_of_bits', 'E4: `64.0 / bits as f64`')]:
        u.trust(w, why)
    u.assume('float comparisons decide which admissible codec is preferred; no clause depends on their outcome')
    u.item(SRC, 'enum', 'CompressionCodec').D1(keep_derive={'Clone', 'Copy'})
    f = u.method(SRC, 'CodecSelector', 'select_for_integers').D1().ret('r')
    f.R46('is_sorted').R15('deltas').R16('max_delta', 'u64').R16('max_value', 'u64')
    f.resub('E4', r'64\.0 / bits_needed as f64', 'ratio_of_bits(bits_needed)')
    f.ensures('delta_codec_only_for_sorted_input', '(r matches CompressionCodec::DeltaBitPacked { .. }) ==> sorted(values@)')
    f.ensures('bit_packing_only_when_every_value_fits', 'forall|b: u8| r == (CompressionCodec::BitPacked { bits: b }) ==> forall|i: int| 0 <= i < values@.len() ==> #[trigger] values@[i] <= mask_of(b as u64)')
    L = f.loop(0).kind('for')        # windows(2).all
    L.invariant('sorted_so_far', 'is_sorted ==> adjacent_sorted(values@, i__ as int)')
    f.after('let w = &values[i__ - 1..i__ + 1];', 'proof { assert(w@ =~= values@.subrange(i__ - 1, i__ + 1)); assert(w@[0] == values@[i__ - 1] && w@[1] == values@[i__ as int]); }', nth=0)
    L.after('proof { if is_sorted { lemma_adjacent_sorted(values@); } }')
    L = f.loop(1).kind('for')        # deltas
    L.invariant('sorted', 'sorted(values@)')
    f.after('let w = &values[i__ - 1..i__ + 1];', 'proof { assert(w@ =~= values@.subrange(i__ - 1, i__ + 1)); assert(w@[0] == values@[i__ - 1] && w@[1] == values@[i__ as int]); }', nth=1)
    L = f.loop(3).kind('for')        # max_value fold
    L.invariants(('some', 'i__ > 0 ==> max_value__max is Some'), ('max_so_far', 'forall|k: int| 0 <= k < i__ ==> values@[k] <= max_value__max.unwrap()'))
    f.after('let max_value = max_value__max.unwrap_or(', 'proof { assert forall|k: int| 0 <= k < values@.len() implies values@[k] <= max_value by { } }')
    u.not_covered += ['select_for_strings (hash set of strings)', 'TypeSpecificCompressor::{compress_integers, decompress_integers} dispatch', 'RunLengthAnalyzer (f64 statistics)']
    return u
