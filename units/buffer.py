"""Unit BUFFER (C20, sequential accounting only): BufferManager::{try_allocate_raw, release, try_allocate}, MemoryRegion::index."""
import re

from vlib import Unit
from rsx import LostAnchor

SRC = 'crates/grafeo-common/src/memory/buffer/manager.rs'
REG = 'crates/grafeo-common/src/memory/buffer/region.rs'

TEMPLATE = r'''
use vstd::prelude::*;
verus! {

@@MemoryRegion@@
impl MemoryRegion {
    pub open spec fn index_spec(&self) -> usize {
        match *self { MemoryRegion::GraphStorage => 0usize, MemoryRegion::IndexBuffers => 1, MemoryRegion::ExecutionBuffers => 2, MemoryRegion::SpillStaging => 3 }
    }
    @@MemoryRegion::index@@
}
// derived PartialEq unused here.

// E1 stand-ins for fields no contracted function touches
// E1 stand-in for BufferManagerConfig: only `budget` is read by the contracted functions (fractions, paths dropped)
#[verifier::external_body] pub struct OpaqueConfigRest { _p: () }
pub struct BufferManagerConfig { pub budget: usize, pub rest: OpaqueConfigRest }
#[verifier::external_body] pub struct OpaqueConsumers { _p: () }
#[verifier::external_body] pub struct MemoryGrant { _p: () }

@@BufferManager@@

// E2: atomics executed sequentially
fn load_usize(a: &usize) -> (r: usize) ensures r == *a { *a }
fn fetch_add_usize(a: &mut usize, v: usize) -> (o: usize)
    ensures o == *old(a), *final(a) == (if *old(a) + v > usize::MAX { (*old(a) + v - usize::MAX - 1) as usize } else { (*old(a) + v) as usize })
{ let o = *a; *a = o.wrapping_add(v); o }
fn fetch_sub_usize(a: &mut usize, v: usize) -> (o: usize)
    ensures o == *old(a), *final(a) == (if *old(a) < v { (*old(a) - v + usize::MAX + 1) as usize } else { (*old(a) - v) as usize })
{ let o = *a; *a = o.wrapping_sub(v); o }

// the grant constructor at the tail of try_allocate (Arc<dyn GrantReleaser> cast) is opaque
#[verifier::external_body]
fn make_grant(size: usize, region: MemoryRegion) -> MemoryGrant { MemoryGrant { _p: () } }

pub open spec fn region_sum(r: [usize; 4]) -> int { r@[0] as int + r@[1] as int + r@[2] as int + r@[3] as int }

@@PressureLevel@@
impl PressureLevel {
    @@PressureLevel::requires_eviction@@
}
// X1 helper: `level >= PressureLevel::High` (derived PartialOrd on a field-less enum); it only selects the eviction target
#[verifier::external_body]
fn at_least_high(level: PressureLevel) -> (r: bool) { true }

impl BufferManager {
    // The ONE assumed contract left on the eviction side: run_eviction_internal walks `consumers` (RwLock<Vec<Arc<dyn MemoryConsumer>>>)
    // and asks them to evict; consumers release through their grants, so `allocated` can only go down, and - in this sequential
    // model - limits and region counters are untouched.
    #[verifier::external_body]
    fn run_eviction_internal(&mut self, to_free: usize) -> (freed: usize)
        ensures final(self).allocated <= old(self).allocated, final(self).hard_limit == old(self).hard_limit,
                final(self).soft_limit == old(self).soft_limit, final(self).evict_limit == old(self).evict_limit,
                final(self).region_allocated@ == old(self).region_allocated@, final(self).config.budget == old(self).config.budget,
    { 0 }

    @@BufferManager::run_eviction_cycle@@

    @@BufferManager::compute_pressure_level@@

    @@BufferManager::pressure_level@@

    @@BufferManager::check_pressure@@

    @@BufferManager::allocated@@

    @@BufferManager::budget@@

    @@BufferManager::available@@

    @@BufferManager::try_allocate@@

    @@BufferManager::try_allocate_raw@@

    @@BufferManager::release@@
}

// accounting returns to where it was when a grant is released (sequentially)
fn grant_then_release(m: &mut BufferManager, size: usize, region: MemoryRegion) -> (ok: bool)
    requires old(m).region_allocated@[region.index_spec() as int] + size <= usize::MAX,
    ensures final(m).region_allocated@ == old(m).region_allocated@, final(m).hard_limit == old(m).hard_limit,
            final(m).allocated <= old(m).allocated,
{
    let ok = m.try_allocate_raw(size, region);
    if ok {
        m.release(size, region);
        assert(m.region_allocated@ =~= old(m).region_allocated@);
    }
    ok
}

} // verus!
fn main() {}
'''


def build(repo):
    u = Unit('buffer', ['C20'], repo, TEMPLATE)
    u.item(REG, 'enum', 'MemoryRegion').D1(keep_derive={'Clone', 'Copy'})
    f = u.method(REG, 'MemoryRegion', 'index').D1().ret('r')
    f.ensures('range', 'r < 4 && r == self.index_spec()')
    bm = u.item(SRC, 'struct', 'BufferManager').D1(keep_derive=set()).V1()
    bm.sub('E2', 'allocated: AtomicUsize,', 'allocated: usize,')
    bm.sub('E2', 'region_allocated: [AtomicUsize; 4],', 'region_allocated: [usize; 4],')
    bm.sub('E1', 'consumers: RwLock<Vec<Arc<dyn MemoryConsumer>>>,', 'consumers: OpaqueConsumers,')
    bm.sub('E2', 'shutdown: AtomicBool,', 'shutdown: bool,')
    for w, why in [('external_body OpaqueConfigRest', 'E1: the fields of BufferManagerConfig other than `budget` (f64 fractions, PathBuf) are not read by the contracted functions'),
                   ('external_body OpaqueConsumers', 'E1: RwLock<Vec<Arc<dyn MemoryConsumer>>> is only read by the eviction callees'),
                   ('external_body MemoryGrant', 'E1: the grant handle (Arc<dyn GrantReleaser> inside) is opaque'),
                   ('external_body make_grant', 'E1: MemoryGrant::new(Arc::clone(self) as Arc<dyn GrantReleaser>, ..) at the tail of try_allocate'),
                   ('external_body at_least_high', 'X1: derived PartialOrd comparison on PressureLevel; only selects the eviction target'),
                   ('external_body run_eviction_internal', 'ASSUMED contract: eviction through the registered consumers never increases `allocated`, leaves limits and (sequentially) region counters alone')]:
        u.trust(w, why)


    STATS = 'crates/grafeo-common/src/memory/buffer/stats.rs'
    u.item(STATS, 'enum', 'PressureLevel').D1(keep_derive={'Clone', 'Copy'})
    f = u.method(STATS, 'PressureLevel', 'requires_eviction').D1().ret('r')
    f.ensures('def', 'r == !(*self is Normal)')
    EVICT_FRAME = ('final(self).allocated <= old(self).allocated && final(self).hard_limit == old(self).hard_limit && final(self).soft_limit == old(self).soft_limit'
                   ' && final(self).evict_limit == old(self).evict_limit && final(self).region_allocated@ == old(self).region_allocated@ && final(self).config.budget == old(self).config.budget')
    f = u.method(SRC, 'BufferManager', 'run_eviction_cycle').D1().ret('freed')
    f.sub('E3', 'fn run_eviction_cycle(&self,', 'fn run_eviction_cycle(&mut self,')
    f.resub('E2', r'self\.allocated\.load\(Ordering::Relaxed\)', 'load_usize(&self.allocated)')
    f.ensures('never_allocates', EVICT_FRAME)
    f = u.method(SRC, 'BufferManager', 'compute_pressure_level').D1().ret('r')
    f.ensures('normal_below_soft', '(r is Normal) == (current < self.soft_limit && current < self.evict_limit && current < self.hard_limit)')
    f = u.method(SRC, 'BufferManager', 'pressure_level').D1().ret('r')
    f.resub('E2', r'self\.allocated\.load\(Ordering::Relaxed\)', 'load_usize(&self.allocated)')
    f = u.method(SRC, 'BufferManager', 'check_pressure').D1()
    f.sub('E3', 'fn check_pressure(&self)', 'fn check_pressure(&mut self)')
    f.sub('X1', 'level >= PressureLevel::High', 'at_least_high(level)')
    f.ensures('never_allocates', EVICT_FRAME)

    def common(f, who):
        f.resub('E2', r'self\.allocated\.load\(Ordering::Relaxed\)', 'load_usize(&self.allocated)')
        # optional: if a counter update disappears from the source there is nothing to sequentialise and the proof must fail
        f.resub_opt('E2', re.escape('self.allocated.fetch_add(size, Ordering::Relaxed);'), 'fetch_add_usize(&mut self.allocated, size);')
        f.resub_opt('E2', re.escape('self.region_allocated[region.index()].fetch_add(size, Ordering::Relaxed);'), 'let ri = region.index(); let ro = load_usize(&self.region_allocated[ri]); self.region_allocated.set(ri, ro.wrapping_add(size));')

    f = u.method(SRC, 'BufferManager', 'allocated').D1().ret('r')
    f.resub('E2', r'self\.allocated\.load\(Ordering::Relaxed\)', 'load_usize(&self.allocated)')
    f.ensures('value', 'r == self.allocated')
    f = u.method(SRC, 'BufferManager', 'budget').D1().ret('r')
    f.ensures('value', 'r == self.config.budget')
    f = u.method(SRC, 'BufferManager', 'available').D1().ret('r')
    f.resub('E2', r'self\.allocated\.load\(Ordering::Relaxed\)', 'load_usize(&self.allocated)')
    f.ensures('value', 'r == (if self.config.budget >= self.allocated { self.config.budget - self.allocated } else { 0 }) as usize')

    POST_OK = ('final(self).allocated <= final(self).hard_limit && final(self).allocated >= size && final(self).allocated - size <= old(self).allocated'
               ' && final(self).region_allocated@[region.index_spec() as int] == old(self).region_allocated@[region.index_spec() as int] + size'
               ' && forall|k: int| 0 <= k < 4 && k != region.index_spec() ==> final(self).region_allocated@[k] == old(self).region_allocated@[k]')
    POST_NO = 'final(self).allocated <= old(self).allocated && final(self).region_allocated@ == old(self).region_allocated@'
    FRAME = 'final(self).hard_limit == old(self).hard_limit && final(self).soft_limit == old(self).soft_limit && final(self).evict_limit == old(self).evict_limit'

    f = u.method(SRC, 'BufferManager', 'try_allocate_raw', trait='GrantReleaser').D1().ret('ok')
    f.sub('E2', 'fn try_allocate_raw(&self,', 'fn try_allocate_raw(&mut self,')
    common(f, 'raw')
    f.requires('region_room', 'old(self).region_allocated@[region.index_spec() as int] + size <= usize::MAX')
    f.ensures('never_over_hard_limit', 'ok ==> ' + POST_OK)
    f.ensures('refusal_allocates_nothing', '!ok ==> ' + POST_NO)
    f.ensures('frame', FRAME)

    f = u.method(SRC, 'BufferManager', 'release', trait='GrantReleaser').D1()
    f.sub('E2', 'fn release(&self,', 'fn release(&mut self,')
    f.resub_opt('E2', re.escape('self.allocated.fetch_sub(size, Ordering::Relaxed);'), 'fetch_sub_usize(&mut self.allocated, size);')
    f.resub_opt('E2', re.escape('self.region_allocated[region.index()].fetch_sub(size, Ordering::Relaxed);'), 'let ri = region.index(); let ro = load_usize(&self.region_allocated[ri]); self.region_allocated.set(ri, ro.wrapping_sub(size));')
    f.requires('held', 'size <= old(self).allocated && size <= old(self).region_allocated@[region.index_spec() as int]')
    f.ensures('exact', 'final(self).allocated == old(self).allocated - size'
              ' && final(self).region_allocated@[region.index_spec() as int] == old(self).region_allocated@[region.index_spec() as int] - size'
              ' && forall|k: int| 0 <= k < 4 && k != region.index_spec() ==> final(self).region_allocated@[k] == old(self).region_allocated@[k]')
    f.ensures('frame', FRAME)

    f = u.method(SRC, 'BufferManager', 'try_allocate').D1().ret('g')
    f.sub('E3', 'self: &Arc<Self>,', '&mut self,')
    common(f, 'alloc')
    f.resub('E1', r'Some\(MemoryGrant::new\(\s*Arc::clone\(self\) as Arc<dyn GrantReleaser>,\s*size,\s*region,\s*\)\)', 'Some(make_grant(size, region))')
    f.requires('region_room', 'old(self).region_allocated@[region.index_spec() as int] + size <= usize::MAX')
    f.before('self.check_pressure()', 'assert(/*@buffer::BufferManager::try_allocate::assert#granted_within_hard_limit*/ self.allocated <= self.hard_limit && self.allocated >= size && self.allocated - size <= old(self).allocated);')
    f.ensures('never_over_hard_limit', 'g is Some ==> final(self).allocated <= final(self).hard_limit'
              ' && final(self).region_allocated@[region.index_spec() as int] == old(self).region_allocated@[region.index_spec() as int] + size'
              ' && forall|k: int| 0 <= k < 4 && k != region.index_spec() ==> final(self).region_allocated@[k] == old(self).region_allocated@[k]')
    f.ensures('refusal_allocates_nothing', 'g is None ==> ' + POST_NO)
    f.ensures('frame', FRAME)
    # E2 soundness guard: the rule replaces each atomic operation by the same operation on a plain field, which is only meaningful when every update of a
    # counter is ONE atomic read-modify-write.  A load followed by a store of the same atomic is a non-atomic read-modify-write whose result depends on the
    # interleaving: the sequential text would still verify, so it is refused (exit 2, UNDECIDED) rather than "proved".
    for lbl in u.order:
        pc = u.pieces[lbl]
        if pc.kind == 'fn' and re.search(r'\.(store|swap|compare_exchange(_weak)?)\s*\(', pc.text) and 'Ordering::' in pc.text:
            raise LostAnchor('rule E2 refuses %s: it writes an atomic with store/swap/compare_exchange instead of a single fetch_add/fetch_sub; whether the counters stay exact '
                             'then depends on the interleaving, which this technique does not cover' % lbl)
    u.assume('SEQUENTIAL ONLY: atomics are executed as plain reads/writes (rule E2); the check-then-increment window of try_allocate under concurrency, ids, torn indexes, epochs and deadlocks are NOT decided (schedules_covered: 0)')
    u.assume('run_eviction_internal is under an ASSUMED contract (trait-object consumers + RwLock are outside Verus); run_eviction_cycle / check_pressure / pressure_level are verified against it')
    u.not_covered += ['every interleaving (no thread reasoning in either verifier here)', 'LpgStore / RdfStore / adjacency / WAL concurrent paths', 'run_eviction_internal (assumed), register/unregister_consumer, evict_to_target, arena.rs']
    return u
