"""Kani unit LIMIT (C11, BOUNDED): the real Limit / Skip / LimitSkip operators return exactly rows s..s+n across chunk boundaries (3 chunks x 0..=2 rows)."""
import os
from klib import KaniUnit

REL = 'crates/grafeo-core/src/execution/operators/limit.rs'


def build(repo):
    u = KaniUnit('limit', ['C11'], 'grafeo-core', cargo_args=['--no-default-features'], copy_crates=['grafeo-common', 'grafeo-core'])
    u.module = 'execution::operators::limit::verif_limit'
    u.append(REL, open(os.path.join(os.path.dirname(os.path.dirname(os.path.abspath(__file__))), 'kani', 'limit.rs')).read())
    for n, ob in [('limit_skip_returns_the_window', 'LimitSkipOperator::next::returns_rows_s_to_s_plus_n[chunks=3,rows<=2,skip<=7,limit<=7]'),
                  ('limit_returns_the_first_n', 'LimitOperator::next::returns_first_n[chunks=3,rows<=2,limit<=7]'),
                  ('skip_drops_the_first_s', 'SkipOperator::next::drops_first_s[chunks=3,rows<=2,skip<=7]')]:
        u.harness(n, 'limit::' + ob, timeout=900, kind='bounded', bound='3 chunks x <=2 rows; skip, limit <= 7')
    u.functions = [('LimitOperator::next, SkipOperator::next, LimitSkipOperator::next (+ DataChunkBuilder / ValueVector Int64 paths they call)', REL)]
    u.assumptions = ['BOUNDED: three input chunks of at most two rows, one Int64 column, no selection vector; skip, limit <= 7']
    u.not_covered = ['chunks with a selection vector, more / larger chunks, push-based LimitOperator (execution/operators/push/limit.rs), reset()']
    return u
