"""Kani unit SPILL (C16): the hand-written spill format round-trips every value bit for bit (scalars complete, heap variants bounded)."""
import os
from klib import KaniUnit

REL = 'crates/grafeo-core/src/execution/spill/serializer.rs'


def build(repo):
    u = KaniUnit('spill', ['C16'], 'grafeo-core', cargo_args=['--no-default-features', '--features', 'spill'], copy_crates=['grafeo-common', 'grafeo-core'])
    u.module = 'execution::spill::serializer::verif_spill'
    u.append(REL, open(os.path.join(os.path.dirname(os.path.dirname(os.path.abspath(__file__))), 'kani', 'spill.rs')).read())
    P = 'spill::serialize_value/deserialize_value::roundtrip_bit_for_bit'
    for n, ob in [('scalar_null_bool', P + '[Null,Bool]'), ('scalar_int64', P + '[Int64]'), ('scalar_float64_bit_for_bit', P + '[Float64]'), ('scalar_timestamp', P + '[Timestamp]')]:
        u.harness(n, ob, timeout=600)
    for n, ob, b in [('bytes_len0', P + '[Bytes,len=0]', 'payload of 0 bytes'), ('bytes_len1', P + '[Bytes,len=1]', 'payload of 1 byte'), ('bytes_len3', P + '[Bytes,len=3]', 'payload of 3 bytes'),
                     ('vector_len0', P + '[Vector,len=0]', '0 f32 components'), ('vector_len2', P + '[Vector,len=2]', '2 f32 components (every bit pattern)'),
                     ('ascii_string_len0', P + '[String,len=0]', 'the empty string'),
                     ('row_int_float', 'spill::serialize_row/deserialize_row::roundtrip_bit_for_bit[Int64,Float64]', 'rows of exactly these 2 scalar columns'),
                     ('row_null_bool', 'spill::serialize_row/deserialize_row::roundtrip_bit_for_bit[Null,Bool]', 'rows of exactly these 2 scalar columns'),
                     ('row_float_int', 'spill::serialize_row/deserialize_row::roundtrip_bit_for_bit[Float64,Int64]', 'rows of exactly these 2 scalar columns')]:
        u.harness(n, ob, kind='bounded', bound=b, timeout=900)
    u.functions = [('serialize_value, deserialize_value, serialize_row, deserialize_row', REL)]
    u.assumptions = ['writer = &mut [u8], reader = &[u8] (std impls); the byte count returned by serialize_* is checked against the bytes written']
    u.not_covered = ['List / Map values (recursion over Arc<[Value]> / BTreeMap), NON-EMPTY strings (String::from_utf8 on symbolic bytes: CBMC > 15 min), longer payloads', 'bincode (WAL records, snapshots) and JSON (bindings): external serializers']
    u.ignore_checks = [r'^NaN on (addition|subtraction|multiplication|division)']
    return u
