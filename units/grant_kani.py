"""Kani unit GRANT (C20, sequential accounting): MemoryGrant::{new, resize, split, merge, consume, drop} against a ledger releaser."""
import os
from klib import KaniUnit

REL = 'crates/grafeo-common/src/memory/buffer/grant.rs'


def build(repo):
    u = KaniUnit('grant', ['C20'], 'grafeo-common', copy_crates=['grafeo-common'])
    u.module = 'memory::buffer::grant::verif_grant'
    u.append(REL, open(os.path.join(os.path.dirname(os.path.dirname(os.path.abspath(__file__))), 'kani', 'grant.rs')).read())
    for n, ob in [('drop_releases_exactly_once', 'drop::releases_exactly_once'), ('resize_accounts_the_difference', 'resize::accounts_the_difference'),
                  ('split_preserves_the_total', 'split::preserves_the_total'), ('merge_preserves_the_total_and_releases_once', 'merge::preserves_total_no_double_release'),
                  ('consume_hands_over_without_releasing', 'consume::no_release')]:
        u.harness(n, 'grant::MemoryGrant::' + ob, timeout=600)
    u.functions = [('MemoryGrant::{new, size, region, resize, split, merge, consume, is_consumed, drop}', REL)]
    u.assumptions = ['SEQUENTIAL: one thread; the releaser is a recording ledger (the real BufferManager side is unit BUFFER)']
    u.not_covered = ['CompositeGrant, every interleaving of grant operations']
    return u
