"""Kani unit CODEC_KANI (C15): zig-zag + bits_needed complete; adapter-chain encoders and byte (de)serialisers BOUNDED by length."""
import os
import re
from klib import KaniUnit


def build(repo):
    u = KaniUnit('codec_kani', ['C15'], 'grafeo-core', cargo_args=['--no-default-features'], copy_crates=['grafeo-common', 'grafeo-core'])
    u.module = 'storage'
    text = open(os.path.join(os.path.dirname(os.path.dirname(os.path.abspath(__file__))), 'kani', 'codec.rs')).read()
    parts = re.split(r'(?m)^//@@FILE (\S+)\n', text)
    for i in range(1, len(parts), 2):
        u.append(parts[i], parts[i + 1])
    u.harness('delta::verif_delta::zigzag_decode_encode', 'delta::zigzag::decode_after_encode_is_identity')
    u.harness('delta::verif_delta::zigzag_encode_decode', 'delta::zigzag::encode_after_decode_is_identity')
    u.harness('runlength::verif_rle::zigzag_decode_encode', 'runlength::zigzag::decode_after_encode_is_identity')
    u.harness('runlength::verif_rle::zigzag_encode_decode', 'runlength::zigzag::encode_after_decode_is_identity')
    u.harness('runlength::verif_rle::zigzag_copies_agree', 'runlength::zigzag::agrees_with_delta_copy')
    u.harness('bitpack::verif_bitpack::bits_needed_tight', 'bitpack::BitPackedInts::bits_needed::tight')
    for n in range(5):
        t = 'quick' if n <= 3 else 'thorough'
        b = 'input length == %d (values symbolic)' % n
        u.harness('delta::verif_delta::l%d::encode_contract' % n, 'delta::DeltaEncoding::encode::deltas_are_diffs+roundtrip[len=%d]' % n, kind='bounded', bound=b, tier=t, timeout=600)
        u.harness('delta::verif_delta::l%d::encode_signed_contract' % n, 'delta::DeltaEncoding::encode_signed::deltas_are_zigzag_diffs+roundtrip[len=%d]' % n, kind='bounded', bound=b, tier=t, timeout=600)
        u.harness('delta::verif_delta::l%d::bytes_roundtrip' % n, 'delta::DeltaEncoding::to_bytes/from_bytes::roundtrip[len=%d]' % n, kind='bounded', bound=b, tier=t, timeout=600)
    for n in range(4):
        t = 'quick' if n <= 2 else 'thorough'
        b = 'input length == %d (values symbolic)' % n
        u.harness('bitpack::verif_bitpack::l%d::pack_roundtrip' % n, 'bitpack::BitPackedInts::pack::roundtrip+random_access[len=%d]' % n, kind='bounded', bound=b, tier=t, timeout=900)
        u.harness('bitpack::verif_bitpack::l%d::delta_bitpacked_roundtrip' % n, 'bitpack::DeltaBitPacked::roundtrip[len=%d]' % n, kind='bounded', bound=b, tier=t, timeout=900)
        if n == 0:   # lengths >= 1 did not finish within 15 min (measured): dropped, listed as not covered
            u.harness('bitpack::verif_bitpack::l%d::bytes_roundtrip' % n, 'bitpack::BitPackedInts::to_bytes/from_bytes::roundtrip[len=%d]' % n, kind='bounded', bound=b, tier=t, timeout=300)
    for n in range(2):   # lengths >= 2 and the iterator/signed harness timed out (> 300 s): dropped per the < 120 s rule, listed as not covered
        b = 'input length == %d (values symbolic)' % n
        u.harness('runlength::verif_rle::l%d::bytes_roundtrip' % n, 'runlength::RunLengthEncoding::to_bytes/from_bytes::roundtrip[len=%d]' % n, kind='bounded', bound=b, tier='quick', timeout=300)
    for n in (0, 1, 3, 65):
        t = 'quick' if n <= 3 else 'thorough'
        b = 'length == %d (bits symbolic)' % n
        u.harness('bitvec::verif_bitvec::l%d::bytes_roundtrip' % n, 'bitvec::BitVector::to_bytes/from_bytes::roundtrip[len=%d]' % n, kind='bounded', bound=b, tier=t, timeout=900)
        if n <= 3:   # length 65 timed out (> 900 s); filled / not / push are proved unboundedly by the Verus unit BITVEC anyway
            u.harness('bitvec::verif_bitvec::l%d::filled_not_push' % n, 'bitvec::BitVector::{filled,not,push,get}::consistent[len=%d]' % n, kind='bounded', bound=b, tier=t, timeout=900)
    u.harness('codec::verif_codec::selector_sound_len8', 'codec::CodecSelector::select_for_integers::chosen_codec_precondition_holds[len=8]', kind='bounded', bound='input length == 8 (values symbolic)', tier='quick', timeout=900)
    u.harness('codec::verif_codec::selector_sound_len9', 'codec::CodecSelector::select_for_integers::chosen_codec_precondition_holds[len=9]', kind='bounded', bound='input length == 9 (values symbolic)', tier='thorough', timeout=1500)
    u.functions = [('CodecSelector::select_for_integers', 'crates/grafeo-core/src/storage/codec.rs'),
                   ('zigzag_encode, zigzag_decode, DeltaEncoding::{encode, encode_signed, decode, decode_signed, to_bytes, from_bytes}', 'crates/grafeo-core/src/storage/delta.rs'),
                   ('BitPackedInts::{bits_needed, pack, pack_with_bits, unpack, get, to_bytes, from_bytes}, DeltaBitPacked::{encode, decode, len, is_empty}', 'crates/grafeo-core/src/storage/bitpack.rs'),
                   ('BitVector::{from_bools, filled, not, push, get, to_bytes, from_bytes}', 'crates/grafeo-core/src/storage/bitvec.rs'),
                   ('zigzag_encode, zigzag_decode (second copy)', 'crates/grafeo-core/src/storage/runlength.rs')]
    u.not_covered = ['BitPackedInts::{to_bytes, from_bytes} for non-empty blocks (Kani harness timed out at length 1: dropped per the < 120 s rule)', 'DictionaryEncoding (hash map of strings), TypeSpecificCompressor (dispatch over the codecs), select_for_strings, compressed property columns, adjacency cold chunks, succinct structures (feature off), epoch_store (adapter chains / hash maps / floats)',
                     'RunLengthEncoding::{to_bytes, from_bytes, from_runs} beyond length 1, RunLengthIterator::next, SignedRunLengthEncoding (Kani harnesses timed out: dropped)']
    u.assumptions = ['bounded harnesses (one per concrete input length <= 3 or 4) are stand-ins for the iterator-adapter encoders and byte serialisers; they are reported separately and never counted as proved']
    return u
