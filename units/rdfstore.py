"""Unit RDFSTORE (C13): RdfStore::{insert, remove, contains, find} - the store is a SET of triples and every lookup path returns exactly
the matching triples of that set, once each.

The primary set (`FxHashSet<Arc<Triple>>`, looked up through Borrow<Triple>) is opaque (vstd has no key model for Arc<T>: Borrow<T>):
it carries an abstract view `Set<Triple>` and its five operations have ASSUMED std contracts.  Everything else - the three term -> bucket
indexes, their agreement with the primary view, no-duplicates, the choice of access path in `find` and its re-filter - is proved."""
import re

from vlib import Unit
from rsx import LostAnchor

SRC = 'crates/grafeo-core/src/graph/rdf/store.rs'
TRI = 'crates/grafeo-core/src/graph/rdf/triple.rs'

TEMPLATE = r'''
use vstd::prelude::*;
use std::collections::HashMap;
use std::sync::Arc;
use std::alloc::Allocator;
use std::hash::{Hash, Hasher, BuildHasher};
use std::borrow::Borrow;
use vstd::std_specs::hash::*;
verus! {
broadcast use vstd::std_specs::hash::group_hash_axioms;

// E1 stand-ins ---------------------------------------------------------------------------------------
#[verifier::external_body] #[derive(PartialEq, Eq)] pub struct Term { _p: () }
impl Hash for Term { #[verifier::external_body] fn hash<H: Hasher>(&self, state: &mut H) { } }
impl vstd::std_specs::cmp::PartialEqSpecImpl for Term {
    open spec fn obeys_eq_spec() -> bool { true }
    open spec fn eq_spec(&self, other: &Term) -> bool { *self == *other }
}
pub assume_specification[ <Term as PartialEq>::eq ](a: &Term, b: &Term) -> (r: bool) ensures r == (*a == *b);
impl Clone for Term { #[verifier::external_body] fn clone(&self) -> (r: Self) ensures r == *self { unimplemented!() } }
#[verifier::external_body] pub struct OpaqueTripleSet { _p: () }      // FxHashSet<Arc<Triple>> (primary storage)
impl OpaqueTripleSet { pub uninterp spec fn view(&self) -> Set<Triple>; }
#[verifier::external_body] pub struct OpaqueTxBuffer { _p: () }
// the primary set's operations: ASSUMED std HashSet contracts over the abstract view
#[verifier::external_body] fn primary_contains(set: &OpaqueTripleSet, t: &Triple) -> (r: bool)
    ensures r == set.view().contains(*t) { unimplemented!() }
#[verifier::external_body] fn primary_insert(set: &mut OpaqueTripleSet, t: Arc<Triple>) -> (r: bool)
    ensures r == !old(set).view().contains(*t), final(set).view() == old(set).view().insert(*t) { unimplemented!() }
#[verifier::external_body] fn primary_remove(set: &mut OpaqueTripleSet, t: &Triple) -> (r: bool)
    ensures r == old(set).view().contains(*t), final(set).view() == old(set).view().remove(*t) { unimplemented!() }
#[verifier::external_body] fn primary_new() -> (r: OpaqueTripleSet)
    ensures r.view() == Set::<Triple>::empty() { unimplemented!() }
#[verifier::external_body] fn primary_clear(set: &mut OpaqueTripleSet)
    ensures final(set).view() == Set::<Triple>::empty() { unimplemented!() }
#[verifier::external_body] #[derive(Clone, Copy)] pub struct TxId { _p: () }      // E1: grafeo_common::types::TxId, only passed through
// `buffer.buffers.remove(&tx_id).unwrap_or_default()`: the operations buffered for tx_id, in the order they were issued (no contract needed:
// commit_tx is specified relative to that sequence)
impl OpaqueTxBuffer { pub uninterp spec fn pending(&self, tx: TxId) -> Seq<PendingOp>; }      // what the transaction buffered, in issue order
#[verifier::external_body] fn tx_take(buf: &mut OpaqueTxBuffer, tx_id: TxId) -> (r: Vec<PendingOp>) ensures r@ == old(buf).pending(tx_id) { unimplemented!() }
// `buffer.buffers.remove(&tx_id).map_or(0, |ops| ops.len())` (rollback_tx): the buffered operations are dropped, their number is returned, no other transaction's buffer changes (ASSUMED: HashMap::remove on the opaque buffer)
#[verifier::external_body] fn tx_discard(buf: &mut OpaqueTxBuffer, tx_id: TxId) -> (r: usize)
    ensures r == old(buf).pending(tx_id).len(), final(buf).pending(tx_id) == Seq::<PendingOp>::empty(), forall|o: TxId| o != tx_id ==> #[trigger] final(buf).pending(o) == old(buf).pending(o) { unimplemented!() }
// R37 helper (verified): all of a, then all of b
fn vec_concat<T>(a: Vec<T>, b: Vec<T>) -> (r: Vec<T>) ensures r@ == a@ + b@ { let mut a = a; let mut b = b; a.append(&mut b); a }
#[verifier::external_body] fn tx_buffer_new() -> (r: OpaqueTxBuffer) { unimplemented!() }
// std: Arc::clone copies the pointer - the clone of an Arc IS that Arc (used for Vec<Arc<_>>::clone)
#[verifier::external_body] pub proof fn axiom_arc_clone()
    ensures forall|a: Arc<Triple>, b: Arc<Triple>| #[trigger] cloned(a, b) ==> a == b { }
#[verifier::external_body] fn primary_elems(set: &OpaqueTripleSet) -> (r: Vec<Arc<Triple>>)
    ensures r@.no_duplicates(), forall|x: Arc<Triple>| #[trigger] r@.contains(x) <==> set.view().contains(*x) { unimplemented!() }
// R20: `m.entry(k).or_default().push(v)` outlined; contract ASSUMED (std HashMap entry API)
#[verifier::external_body] fn entry_or_default_push(m: &mut HashMap<Term, Vec<Arc<Triple>>>, k: Term, v: Arc<Triple>)
    ensures final(m)@.contains_key(k), final(m)@[k]@ == bucket(old(m)@, k).push(v),
            forall|o: Term| #![trigger final(m)@.contains_key(o)] #![trigger old(m)@.contains_key(o)] #![trigger final(m)@[o]] #![trigger old(m)@[o]]
                o != k ==> (final(m)@.contains_key(o) == old(m)@.contains_key(o)) && (old(m)@.contains_key(o) ==> final(m)@[o] == old(m)@[o]),
{ m.entry(k).or_default().push(v); }
// E3t: `drop(std::mem::take(&mut X))` by the type of X - std: what is left behind is Default::default(): the empty map / None (ASSUMED)
#[verifier::external_body] fn take_map(m: &mut HashMap<Term, Vec<Arc<Triple>>>) ensures final(m)@ == Map::<Term, Vec<Arc<Triple>>>::empty() { drop(std::mem::take(m)); }
#[verifier::external_body] fn take_opt_map(m: &mut Option<HashMap<Term, Vec<Arc<Triple>>>>) ensures *final(m) is None { drop(std::mem::take(m)); }

@@Triple@@
impl vstd::std_specs::cmp::PartialEqSpecImpl for Triple {
    open spec fn obeys_eq_spec() -> bool { true }
    open spec fn eq_spec(&self, other: &Triple) -> bool { *self == *other }
}
pub assume_specification[ <Triple as PartialEq>::eq ](a: &Triple, b: &Triple) -> (r: bool) ensures r == (*a == *b);
impl Triple {
    @@Triple::subject@@
    @@Triple::predicate@@
    @@Triple::object@@
}
@@TriplePattern@@
/// "every lookup by subject, predicate, object or any combination returns exactly the matching triples"
pub open spec fn pattern_matches(p: TriplePattern, t: Triple) -> bool {
    (p.subject is None || p.subject->0 == t.subject)
    && (p.predicate is None || p.predicate->0 == t.predicate)
    && (p.object is None || p.object->0 == t.object)
}
pub open spec fn comp_is(c: Comp, k: Term) -> spec_fn(Arc<Triple>) -> bool { |x: Arc<Triple>| comp(*x, c) == k }
pub open spec fn pm(p: TriplePattern) -> spec_fn(Arc<Triple>) -> bool { |x: Arc<Triple>| pattern_matches(p, *x) }
impl TriplePattern {
    @@TriplePattern::matches@@
}
@@PendingOp@@
/// the set after applying buffered operations in order
pub open spec fn apply_ops(v: Set<Triple>, ops: Seq<PendingOp>) -> Set<Triple>
    decreases ops.len()
{
    if ops.len() == 0 { v } else {
        let p = apply_ops(v, ops.drop_last());
        match ops.last() { PendingOp::Insert(t) => p.insert(t), PendingOp::Delete(t) => p.remove(t) }
    }
}
@@RdfStoreConfig@@
@@RdfStore@@

pub assume_specification<'a, K, V, S, A, Q>[ HashMap::<K, V, S, A>::get_mut::<Q> ](m: &'a mut HashMap<K, V, S, A>, k: &Q) -> (r: Option<&'a mut V>)
    where K: Eq + Hash + Borrow<Q>, Q: Hash + Eq + ?Sized, S: BuildHasher, A: Allocator
    ensures
        obeys_key_model::<K>() && builds_valid_hashers::<S>() ==> match r {
            Some(v) => contains_borrowed_key(old(m)@, k) && maps_borrowed_key_to_value(old(m)@, k, *v)
                && contains_borrowed_key(final(m)@, k) && maps_borrowed_key_to_value(final(m)@, k, *final(v))
                && (exists|mid: Map<K, V>| borrowed_key_removed(old(m)@, mid, k) && borrowed_key_removed(final(m)@, mid, k)),
            None => !contains_borrowed_key(old(m)@, k) && final(m)@ == old(m)@,
        }
;
// std: Vec::retain keeps, in order, exactly the elements the predicate accepts.  Phrased without naming the closure: for every
// spec predicate p that agrees with the closure's verdict on each element, the result is old.filter(p).
pub assume_specification<T, A: Allocator, F: FnMut(&T) -> bool>[ Vec::<T, A>::retain ](v: &mut Vec<T, A>, f: F)
    requires forall|i: int| 0 <= i < old(v)@.len() ==> #[trigger] f.requires((&old(v)@[i],)),
    ensures forall|p: spec_fn(T) -> bool|
                (forall|i: int| 0 <= i < old(v)@.len() ==> (f.ensures((&old(v)@[i],), true) ==> #[trigger] p(old(v)@[i])) && (f.ensures((&old(v)@[i],), false) ==> !p(old(v)@[i])))
                ==> final(v)@ == #[trigger] old(v)@.filter(p),
;
pub proof fn axiom_term_keys() ensures obeys_key_model::<Term>() { admit(); }

// ---- specification ---------------------------------------------------------------------------------
pub enum Comp { S, P, O }
pub open spec fn comp(t: Triple, c: Comp) -> Term { match c { Comp::S => t.subject, Comp::P => t.predicate, Comp::O => t.object } }
/// the bucket stored under key k (absent == empty)
pub open spec fn bucket(idx: Map<Term, Vec<Arc<Triple>>>, k: Term) -> Seq<Arc<Triple>> { if idx.contains_key(k) { idx[k]@ } else { Seq::empty() } }
/// index invariant: every entry sits in the bucket of its own component, and no bucket is empty
pub open spec fn index_wf(idx: Map<Term, Vec<Arc<Triple>>>, c: Comp) -> bool {
    forall|k: Term| #[trigger] idx.contains_key(k) ==> idx[k]@.len() > 0 && forall|i: int| 0 <= i < idx[k]@.len() ==> comp(*#[trigger] idx[k]@[i], c) == k
}
/// the entries that survive the removal of t (ONE closure term, so that all filters below are the same term)
pub open spec fn differs(t: Triple) -> spec_fn(Arc<Triple>) -> bool { |x: Arc<Triple>| *x != t }
/// after removing triple t: every bucket holds exactly its old entries different from t, in order
pub open spec fn index_removed(old_idx: Map<Term, Vec<Arc<Triple>>>, new_idx: Map<Term, Vec<Arc<Triple>>>, t: Triple) -> bool {
    forall|k: Term| #[trigger] bucket(new_idx, k) == bucket(old_idx, k).filter(differs(t))
}

proof fn lemma_filter_ext<T>(s: Seq<T>, p: spec_fn(T) -> bool, q: spec_fn(T) -> bool)
    requires forall|i: int| 0 <= i < s.len() ==> p(#[trigger] s[i]) == q(s[i]),
    ensures s.filter(p) == s.filter(q),
    decreases s.len()
{
    reveal_with_fuel(Seq::filter, 2);
    if s.len() > 0 {
        lemma_filter_ext(s.drop_last(), p, q);
        assert(p(s.last()) == q(s.last()));
    }
}
proof fn lemma_filter_all<T>(s: Seq<T>, p: spec_fn(T) -> bool)
    requires forall|i: int| 0 <= i < s.len() ==> p(#[trigger] s[i]),
    ensures s.filter(p) == s,
    decreases s.len()
{
    reveal_with_fuel(Seq::filter, 2);
    if s.len() > 0 {
        lemma_filter_all(s.drop_last(), p);
        assert(p(s.last()));
        assert(s.drop_last().push(s.last()) =~= s);
    }
}
proof fn lemma_filter_subset<T>(s: Seq<T>, p: spec_fn(T) -> bool)
    ensures forall|i: int| 0 <= i < s.filter(p).len() ==> s.contains(#[trigger] s.filter(p)[i]),
    decreases s.len()
{
    reveal_with_fuel(Seq::filter, 2);
    if s.len() > 0 {
        let d = s.drop_last();
        lemma_filter_subset(d, p);
        assert forall|i: int| 0 <= i < s.filter(p).len() implies s.contains(#[trigger] s.filter(p)[i]) by {
            if i < d.filter(p).len() {
                assert(d.contains(d.filter(p)[i]));
                let j = choose|j: int| 0 <= j < d.len() && d[j] == d.filter(p)[i];
                assert(s[j] == d[j]);
            } else {
                assert(s.filter(p)[i] == s.last());
                assert(s[s.len() - 1] == s.last());
            }
        }
    }
}
/// effect of `get_mut(k)` + writes through the returned reference on the map view
proof fn lemma_get_mut_effect<V>(old_m: Map<Term, V>, new_m: Map<Term, V>, k: Term)
    requires
        old_m.contains_key(k), new_m.contains_key(k),
        exists|mid: Map<Term, V>| borrowed_key_removed(old_m, mid, &k) && borrowed_key_removed(new_m, mid, &k),
        obeys_key_model::<Term>(),
    ensures
        forall|o: Term| #![trigger new_m.contains_key(o)] #![trigger old_m.contains_key(o)] #![trigger new_m[o]] #![trigger old_m[o]] o != k ==> (new_m.contains_key(o) == old_m.contains_key(o)) && (old_m.contains_key(o) ==> new_m[o] == old_m[o]),
{
    let mid = choose|mid: Map<Term, V>| borrowed_key_removed(old_m, mid, &k) && borrowed_key_removed(new_m, mid, &k);
    assert(mid == old_m.remove(k));
    assert(mid == new_m.remove(k));
    assert forall|o: Term| #![trigger new_m.contains_key(o)] #![trigger old_m.contains_key(o)] #![trigger new_m[o]] #![trigger old_m[o]] o != k implies (new_m.contains_key(o) == old_m.contains_key(o)) && (old_m.contains_key(o) ==> new_m[o] == old_m[o]) by {
        assert(mid.contains_key(o) == old_m.contains_key(o)); assert(mid.contains_key(o) == new_m.contains_key(o));
        if old_m.contains_key(o) { assert(mid[o] == old_m[o]); assert(mid[o] == new_m[o]); }
    }
}
/// The update shape produced by remove (only the bucket of the triple's own component changes, to the filtered bucket or to
/// "absent" when that is empty) yields index_removed, given the index invariant.
proof fn lemma_bucket_update(old_idx: Map<Term, Vec<Arc<Triple>>>, new_idx: Map<Term, Vec<Arc<Triple>>>, t: Triple, c: Comp)
    requires
        index_wf(old_idx, c),
        forall|o: Term| #![trigger new_idx.contains_key(o)] #![trigger old_idx.contains_key(o)] #![trigger new_idx[o]] #![trigger old_idx[o]] o != comp(t, c) ==> (new_idx.contains_key(o) == old_idx.contains_key(o)) && (old_idx.contains_key(o) ==> new_idx[o] == old_idx[o]),
        bucket(new_idx, comp(t, c)) == bucket(old_idx, comp(t, c)).filter(differs(t)),
    ensures index_removed(old_idx, new_idx, t),
            (bucket(new_idx, comp(t, c)).len() > 0 || !new_idx.contains_key(comp(t, c))) ==> index_wf(new_idx, c),
{
    assert forall|k2: Term| #[trigger] new_idx.contains_key(k2) && (bucket(new_idx, comp(t, c)).len() > 0 || !new_idx.contains_key(comp(t, c)))
        implies new_idx[k2]@.len() > 0 && forall|i: int| 0 <= i < new_idx[k2]@.len() ==> comp(*#[trigger] new_idx[k2]@[i], c) == k2 by {
        if k2 == comp(t, c) {
            let f = bucket(old_idx, k2).filter(differs(t));
            assert(new_idx[k2]@ == f);
            assert forall|i: int| 0 <= i < f.len() implies comp(*#[trigger] f[i], c) == k2 by {
                lemma_filter_subset(bucket(old_idx, k2), differs(t));
                assert(bucket(old_idx, k2).contains(f[i]));
                let j = choose|j: int| 0 <= j < bucket(old_idx, k2).len() && bucket(old_idx, k2)[j] == f[i];
                assert(comp(*old_idx[k2]@[j], c) == k2);
            }
        }
    }
    let k = comp(t, c);
    let pred = differs(t);
    assert forall|kk: Term| #[trigger] bucket(new_idx, kk) == bucket(old_idx, kk).filter(pred) by {
        if kk != k {
            assert(bucket(new_idx, kk) == bucket(old_idx, kk));
            if old_idx.contains_key(kk) {
                assert forall|i: int| 0 <= i < old_idx[kk]@.len() implies pred(#[trigger] old_idx[kk]@[i]) by {
                    assert(comp(*old_idx[kk]@[i], c) == kk);
                }
                lemma_filter_all(old_idx[kk]@, pred);
            } else {
                lemma_filter_all(Seq::<Arc<Triple>>::empty(), pred);
            }
        }
    }
}

/// the index agrees with the set V: a triple sits in the bucket of its own component iff it is in V
pub open spec fn agree(idx: Map<Term, Vec<Arc<Triple>>>, c: Comp, v: Set<Triple>) -> bool {
    forall|x: Arc<Triple>| #![trigger bucket(idx, comp(*x, c)).contains(x)] #![trigger v.contains(*x)] bucket(idx, comp(*x, c)).contains(x) <==> v.contains(*x)
}
pub open spec fn tri(a: Arc<Triple>) -> Triple { *a }
pub open spec fn index_nodup(idx: Map<Term, Vec<Arc<Triple>>>) -> bool {
    forall|k: Term| #[trigger] idx.contains_key(k) ==> idx[k]@.no_duplicates()
}
pub open spec fn index_ok(idx: Map<Term, Vec<Arc<Triple>>>, c: Comp, v: Set<Triple>) -> bool { index_wf(idx, c) && agree(idx, c, v) && index_nodup(idx) }

pub proof fn lemma_filter_mem<T>(s: Seq<T>, p: spec_fn(T) -> bool)
    ensures forall|x: T| #[trigger] s.filter(p).contains(x) <==> s.contains(x) && p(x),
    decreases s.len()
{
    reveal_with_fuel(Seq::filter, 2);
    if s.len() == 0 {
        assert(s.filter(p) =~= Seq::<T>::empty());
    } else {
        let d = s.drop_last();
        lemma_filter_mem(d, p);
        assert forall|x: T| #[trigger] s.filter(p).contains(x) <==> s.contains(x) && p(x) by {
            let f = s.filter(p);
            let df = d.filter(p);
            if f.contains(x) {
                let i = choose|i: int| 0 <= i < f.len() && f[i] == x;
                if i < df.len() { assert(df[i] == x); assert(df.contains(x)); assert(d.contains(x)); let j = choose|j: int| 0 <= j < d.len() && d[j] == x; assert(s[j] == x); }
                else { assert(p(s.last()) && x == s.last()); assert(s[s.len() - 1] == x); }
            }
            if s.contains(x) && p(x) {
                let j = choose|j: int| 0 <= j < s.len() && s[j] == x;
                if j < d.len() { assert(d[j] == x); assert(d.contains(x)); assert(df.contains(x)); let i = choose|i: int| 0 <= i < df.len() && df[i] == x; assert(f[i] == x); }
                else { assert(x == s.last()); assert(f == df.push(s.last())); assert(f[f.len() - 1] == x); }
            }
        }
    }
}
pub proof fn lemma_filter_nodup<T>(s: Seq<T>, p: spec_fn(T) -> bool)
    requires s.no_duplicates(),
    ensures s.filter(p).no_duplicates(),
    decreases s.len()
{
    reveal_with_fuel(Seq::filter, 2);
    if s.len() > 0 {
        let d = s.drop_last();
        assert(d.no_duplicates());
        lemma_filter_nodup(d, p);
        lemma_filter_mem(d, p);
        let f = s.filter(p);
        let df = d.filter(p);
        if p(s.last()) {
            assert(f == df.push(s.last()));
            assert forall|i: int, j: int| 0 <= i < f.len() && 0 <= j < f.len() && i != j implies f[i] != f[j] by {
                if i == f.len() - 1 || j == f.len() - 1 {
                    let o = if i == f.len() - 1 { j } else { i };
                    assert(df.contains(df[o]));
                    assert(d.contains(df[o]));
                    let k = choose|k: int| 0 <= k < d.len() && d[k] == df[o];
                    assert(s[k] == df[o] && s[s.len() - 1] == s.last());
                }
            }
        }
    }
}
/// removal at index level (index_removed) carries the set-level invariant from V to V - {t}
proof fn lemma_removed(old_idx: Map<Term, Vec<Arc<Triple>>>, new_idx: Map<Term, Vec<Arc<Triple>>>, t: Triple, c: Comp, v: Set<Triple>)
    requires agree(old_idx, c, v), index_nodup(old_idx), index_removed(old_idx, new_idx, t),
    ensures agree(new_idx, c, v.remove(t)), index_nodup(new_idx),
{
    assert forall|x: Arc<Triple>| bucket(new_idx, comp(*x, c)).contains(x) <==> v.remove(t).contains(*x) by {
        let k = comp(tri(x), c);
        assert(bucket(new_idx, k) == bucket(old_idx, k).filter(differs(t)));
        lemma_filter_mem(bucket(old_idx, k), differs(t));
        assert(bucket(old_idx, k).contains(x) <==> v.contains(*x));
    }
    assert forall|k: Term| #[trigger] new_idx.contains_key(k) implies new_idx[k]@.no_duplicates() by {
        assert(bucket(new_idx, k) == bucket(old_idx, k).filter(differs(t)));
        if old_idx.contains_key(k) { assert(old_idx[k]@.no_duplicates()); }
        lemma_filter_nodup(bucket(old_idx, k), differs(t));
    }
}
/// the update shape of entry(k).or_default().push(a) carries the invariant from V to V + {a}, provided a was not in V
proof fn lemma_inserted(old_idx: Map<Term, Vec<Arc<Triple>>>, new_idx: Map<Term, Vec<Arc<Triple>>>, a: Arc<Triple>, c: Comp, v: Set<Triple>)
    requires index_ok(old_idx, c, v), !v.contains(*a),
        new_idx.contains_key(comp(*a, c)), new_idx[comp(*a, c)]@ == bucket(old_idx, comp(*a, c)).push(a),
        forall|o: Term| #![trigger new_idx.contains_key(o)] #![trigger old_idx.contains_key(o)] #![trigger new_idx[o]] #![trigger old_idx[o]]
            o != comp(*a, c) ==> (new_idx.contains_key(o) == old_idx.contains_key(o)) && (old_idx.contains_key(o) ==> new_idx[o] == old_idx[o]),
    ensures index_ok(new_idx, c, v.insert(*a)),
{
    let k = comp(tri(a), c);
    let b = bucket(old_idx, k);
    let nb = b.push(a);
    assert(bucket(new_idx, k) == nb);
    assert(!b.contains(a));
    assert forall|k2: Term| #[trigger] new_idx.contains_key(k2) implies new_idx[k2]@.len() > 0 && new_idx[k2]@.no_duplicates()
        && forall|i: int| 0 <= i < new_idx[k2]@.len() ==> comp(*#[trigger] new_idx[k2]@[i], c) == k2 by {
        if k2 == k {
            assert forall|i: int| 0 <= i < nb.len() implies comp(*#[trigger] nb[i], c) == k by {
                if i < b.len() { assert(old_idx.contains_key(k)); assert(nb[i] == old_idx[k]@[i]); }
            }
            assert forall|i: int, j: int| 0 <= i < nb.len() && 0 <= j < nb.len() && i != j implies nb[i] != nb[j] by {
                if old_idx.contains_key(k) { assert(old_idx[k]@.no_duplicates()); }
                if i == b.len() { assert(b.contains(b[j])); } else if j == b.len() { assert(b.contains(b[i])); } else { assert(b[i] != b[j]); }
            }
        } else {
            assert(old_idx.contains_key(k2) && new_idx[k2] == old_idx[k2]);
        }
    }
    assert forall|x: Arc<Triple>| bucket(new_idx, comp(*x, c)).contains(x) <==> v.insert(*a).contains(*x) by {
        let kx = comp(tri(x), c);
        if kx == k {
            if nb.contains(x) { let i = choose|i: int| 0 <= i < nb.len() && nb[i] == x; if i < b.len() { assert(b[i] == x); assert(b.contains(x)); } }
            if b.contains(x) { let i = choose|i: int| 0 <= i < b.len() && b[i] == x; assert(nb[i] == x); }
            if x == a { assert(nb[b.len() as int] == x); }
            assert(b.contains(x) <==> v.contains(*x));
        } else {
            assert(bucket(new_idx, kx) == bucket(old_idx, kx));
            assert(bucket(old_idx, kx).contains(x) <==> v.contains(*x));
        }
    }
}

impl RdfStore {
    /// Representation invariant of the store: the object index exists iff configured, and every index is well-formed, duplicate-free
    /// and agrees with the primary set.
    pub open spec fn store_wf(&self) -> bool {
        index_ok(self.subject_index@, Comp::S, self.triples.view())
        && index_ok(self.predicate_index@, Comp::P, self.triples.view())
        && (self.config.index_objects == (self.object_index is Some))
        && (self.object_index is Some ==> index_ok(self.object_index->0@, Comp::O, self.triples.view()))
    }

    @@RdfStore::with_config@@

    @@RdfStore::insert@@

    @@RdfStore::remove@@

    @@RdfStore::contains@@

    @@RdfStore::find@@

    @@RdfStore::triples_with_subject@@

    @@RdfStore::triples_with_predicate@@

    @@RdfStore::triples_with_object@@

    @@RdfStore::clear@@

    @@RdfStore::commit_tx@@

    @@RdfStore::rollback_tx@@
}

} // verus!
fn main() {}
'''


def build(repo):
    u = Unit('rdfstore', ['C13'], repo, TEMPLATE, features=['allocator_api'], edition2024=True)
    u.item(TRI, 'struct', 'Triple').D1(keep_derive={'PartialEq', 'Eq'}).V1()
    for n in ('subject', 'predicate', 'object'):
        u.method(TRI, 'Triple', n).D1().ret('r').ensures('field', '*r == self.%s' % n)
    u.item(TRI, 'struct', 'TriplePattern').D1(keep_derive=set())
    f = u.method(TRI, 'TriplePattern', 'matches').D1().R6().ret('r')
    f.ensures('spec', 'r == pattern_matches(*self, *triple)')
    u.item(SRC, 'struct', 'RdfStoreConfig').D1(keep_derive=set())
    st = u.item(SRC, 'struct', 'RdfStore').D1(keep_derive=set()).V1()
    st.sub('E3', 'triples: RwLock<FxHashSet<Arc<Triple>>>,', 'triples: OpaqueTripleSet,')
    st.resub('E3', r'(subject_index|predicate_index): RwLock<hashbrown::HashMap<Term, Vec<Arc<Triple>>, ahash::RandomState>>,', r'\1: HashMap<Term, Vec<Arc<Triple>>>,', count=2)
    st.sub('E3', 'object_index: RwLock<Option<hashbrown::HashMap<Term, Vec<Arc<Triple>>, ahash::RandomState>>>,', 'object_index: Option<HashMap<Term, Vec<Arc<Triple>>>>,')
    st.sub('E3', 'tx_buffer: RwLock<TransactionBuffer>,', 'tx_buffer: OpaqueTxBuffer,')
    for w, why in [('external_body Term', 'E1: Term is opaque; only its structural equality / hashing is used'), ('external_body Term::hash', 'E1'),
                   ('assume_specification Term::eq', 'derived PartialEq of Term is structural'), ('external_body OpaqueTripleSet', 'E1: primary FxHashSet<Arc<Triple>> (no vstd key model for Arc<T>: Borrow<T>); carries the uninterpreted abstract view Set<Triple>'),
                   ('external_body OpaqueTxBuffer', 'E1: not touched'), ('external_body primary_remove', 'E3/E1: `self.triples.write().remove(triple)`: ASSUMED std HashSet::remove over the abstract view'),
                   ('external_body primary_contains', 'E3/E1: `self.triples.read().contains(..)`: ASSUMED std HashSet::contains over the abstract view'),
                   ('external_body primary_insert', 'E3/E1: `self.triples.write().insert(..)`: ASSUMED std HashSet::insert over the abstract view'),
                   ('external_body primary_elems', 'E3/E1: `self.triples.read().iter()`: ASSUMED - a hash set enumerates each of its elements exactly once'),
                   ('external_body entry_or_default_push', 'R20: std HashMap::entry(k).or_default().push(v) appends v to the bucket of k (created if absent), other keys untouched'),
                   ('external_body Term::clone', 'E1: derived Clone of Term is structural'),
                   ('external_body primary_new', 'E3/E1: `FxHashSet::default()` is the empty set'), ('external_body primary_clear', 'E3/E1: `HashSet::clear` empties the set'),
                   ('external_body tx_buffer_new', 'E1: `TransactionBuffer::default()`, not touched by the contracts'),
                   ('external_body axiom_arc_clone', 'std: the clone of an Arc is that Arc (needed because vstd specifies Vec::clone element-wise through `cloned`)'),

                   ('assume_specification Triple::eq', 'derived PartialEq of Triple is structural'), ('assume_specification HashMap::get_mut', 'std semantics (as in unit TM)'),
                   ('assume_specification Vec::retain', 'std: retain keeps, in order, exactly the elements the predicate accepts'), ('admit axiom_term_keys', 'derived Hash/Eq of Term are lawful')]:
        u.trust(w, why)

    f = u.method(SRC, 'RdfStore', 'remove').D1().ret('removed_r')
    f.sub('E3', 'pub fn remove(&self,', 'pub fn remove(&mut self,')
    f.sub('E3', '        let mut triples = self.triples.write();\n', '')
    f.sub('E3', 'triples.remove(triple)', 'primary_remove(&mut self.triples, triple)')
    f.sub('E3', '        let mut subject_index = self.subject_index.write();\n', '')
    f.sub('E3', '        let mut predicate_index = self.predicate_index.write();\n', '')
    f.sub('E3', '        let mut object_index = self.object_index.write();\n', '')
    f.resub('E3', r'(?<![\.\w])(subject_index|predicate_index)\b', r'self.\1')
    f.sub('E3', '= *object_index', '= self.object_index')
    f.R6()
    f.resub_opt('X1', r'\bt\.as_ref\(\)', '(&**t)')   # Arc::as_ref == Arc::deref on the closure parameter (other closure bodies are taken verbatim)
    COMP = ['subject', 'predicate', 'object']
    f.R10('retain', '&Arc<Triple>', lambda i: 'requires (**t).%s == triple.%s, ensures /*@rdfstore::RdfStore::remove::closure#retain_%s_bucket_keeps_exactly_the_other_triples*/ r == (**t != *triple),' % (COMP[i], COMP[i], COMP[i]))
    f.requires('wf', 'old(self).store_wf()')
    f.ensures('result', 'removed_r == old(self).triples.view().contains(*triple)')
    f.ensures('set_semantics', 'final(self).triples.view() =~= old(self).triples.view().remove(*triple)')
    f.ensures('store_invariant', 'final(self).store_wf()')
    f.ensures('subject_index', 'removed_r ==> index_removed(old(self).subject_index@, final(self).subject_index@, *triple)')
    f.ensures('predicate_index', 'removed_r ==> index_removed(old(self).predicate_index@, final(self).predicate_index@, *triple)')
    f.ensures('object_index', 'removed_r && old(self).config.index_objects && old(self).object_index is Some ==> final(self).object_index is Some'
              ' && index_removed(old(self).object_index->0@, final(self).object_index->0@, *triple)')
    f.ensures('invariant_preserved', 'removed_r ==> index_wf(final(self).subject_index@, Comp::S) && index_wf(final(self).predicate_index@, Comp::P)'
              ' && (final(self).object_index is Some && old(self).config.index_objects ==> index_wf(final(self).object_index->0@, Comp::O))')
    f.ensures('absent_changes_nothing', '!removed_r ==> final(self).subject_index@ == old(self).subject_index@ && final(self).predicate_index@ == old(self).predicate_index@ && final(self).object_index == old(self).object_index')
    f.body_start('proof { axiom_term_keys(); }\nlet ghost S0 = old(self).subject_index@; let ghost P0 = old(self).predicate_index@;\nlet ghost O0 = if old(self).object_index is Some { old(self).object_index->0@ } else { Map::empty() };')
    comps = ['subject', 'predicate', 'object']
    for i in range(3):
        G0 = ['S0', 'P0', 'O0'][i]
        f.before('vec.retain(', 'let ghost b%d = vec@;\nproof { assert(%s.contains_key(triple.%s) && b%d == %s[triple.%s]@); assert forall|j: int| 0 <= j < b%d.len() implies (*#[trigger] b%d[j]).%s == triple.%s by { } }' % (i, G0, comps[i], i, G0, comps[i], i, i, comps[i], comps[i]), nth=i)
        f.after('vec.retain(', 'let ghost a%d = vec@;\nproof { assert(a%d == b%d.filter(differs(*triple))); }' % (i, i, i), nth=i)
    # after the subject block / predicate block / object block: the update shape gives index_removed
    def merge_hint(ghost0, place, comp_field, comp_enum):
        return '''proof {
    let k = triple.%s;
    let pred = differs(*triple);
    let new_m = %s;
    if !%s.contains_key(k) {
        assert(new_m == %s);                                    // get_mut returned None
        lemma_filter_all(Seq::<Arc<Triple>>::empty(), pred);
    } else if new_m.contains_key(k) {
        lemma_get_mut_effect(%s, new_m, k);                     // bucket kept (non-empty after retain)
    } else {
        assert(forall|o: Term| #![trigger new_m.contains_key(o)] o != k ==> (new_m.contains_key(o) == %s.contains_key(o)) && (%s.contains_key(o) ==> new_m[o] == %s[o]));   // bucket emptied and removed
    }
    lemma_bucket_update(%s, new_m, *triple, Comp::%s);
}''' % (comp_field, place, ghost0, ghost0, ghost0, ghost0, ghost0, ghost0, ghost0, comp_enum)
    f.before('self.subject_index.remove(', 'let ghost S1 = self.subject_index@;\nproof { lemma_get_mut_effect(S0, S1, triple.subject); assert(a0 =~= Seq::<Arc<Triple>>::empty()); }', optional=True)
    f.before('self.predicate_index.remove(', 'let ghost P1 = self.predicate_index@;\nproof { lemma_get_mut_effect(P0, P1, triple.predicate); assert(a1 =~= Seq::<Arc<Triple>>::empty()); }', optional=True)
    f.before('if let Some(vec) = self.predicate_index', merge_hint('S0', 'self.subject_index@', 'subject', 'S'))
    f.before('if self.config.index_objects', merge_hint('P0', 'self.predicate_index@', 'predicate', 'P'))
    f.before(' index.remove(', 'let ghost O1 = index@;\nproof { lemma_get_mut_effect(O0, O1, triple.object); assert(a2 =~= Seq::<Arc<Triple>>::empty()); }', optional=True)
    f.before_tail('''proof {
    if old(self).config.index_objects && old(self).object_index is Some {
        let k = triple.object;
        let pred = differs(*triple);
        if self.object_index->0@.contains_key(k) { lemma_get_mut_effect(O0, self.object_index->0@, k); }
        if !O0.contains_key(k) { lemma_filter_all(Seq::<Arc<Triple>>::empty(), pred); }
        lemma_bucket_update(O0, self.object_index->0@, *triple, Comp::O);
    }
    let V0 = old(self).triples.view();
    lemma_removed(S0, self.subject_index@, *triple, Comp::S, V0);
    lemma_removed(P0, self.predicate_index@, *triple, Comp::P, V0);
    if self.object_index is Some { lemma_removed(O0, self.object_index->0@, *triple, Comp::O, V0); }
}''')

    # ---- insert ----
    f = u.method(SRC, 'RdfStore', 'insert').D1().R6().ret('r')
    f.sub('E3', 'pub fn insert(&self,', 'pub fn insert(&mut self,')
    f.resub_opt('E3', r'[ \t]*let (?:mut )?(triples|subject_index|predicate_index|object_index) = self\.\1\.(?:read|write)\(\);\n', '')
    f.resub_opt('E3', r'\btriples\.contains\(&triple\)', 'primary_contains(&self.triples, &triple)')
    f.resub_opt('E3', r'\btriples\.insert\(Arc::clone\(&triple\)\)', 'primary_insert(&mut self.triples, Arc::clone(&triple))')
    f.resub('E3', r'(?<![\.\w])(subject_index|predicate_index)\b(?=\s*\.entry)', r'self.\1')
    f.sub('E3', '= *object_index', '= self.object_index')
    f.R20()
    f.requires('wf', 'old(self).store_wf()')
    f.ensures('result', 'r == !old(self).triples.view().contains(triple)')
    f.ensures('set_semantics', 'final(self).triples.view() =~= old(self).triples.view().insert(triple)')
    f.ensures('store_invariant', 'final(self).store_wf()')
    f.body_start('proof { axiom_term_keys(); }\nlet ghost S0 = old(self).subject_index@; let ghost P0 = old(self).predicate_index@; let ghost V0 = old(self).triples.view();\n'
                 'let ghost O0 = if old(self).object_index is Some { old(self).object_index->0@ } else { Map::empty() };')
    f.before_tail('''proof {
    lemma_inserted(S0, self.subject_index@, triple, Comp::S, V0);
    lemma_inserted(P0, self.predicate_index@, triple, Comp::P, V0);
    if self.object_index is Some { lemma_inserted(O0, self.object_index->0@, triple, Comp::O, V0); }
}''')

    # ---- contains ----
    f = u.method(SRC, 'RdfStore', 'contains').D1().ret('r')
    f.sub('E3', 'self.triples.read().contains(triple)', 'primary_contains(&self.triples, triple)')
    f.ensures('set_semantics', 'r == self.triples.view().contains(*triple)')

    # ---- find ----
    f = u.method(SRC, 'RdfStore', 'find').D1().R6().ret('r')
    f.resub('E3', r'let index = self\.(subject_index|predicate_index|object_index)\.read\(\);', r'let index = &self.\1;', count=3)
    f.resub('E3', r'self\.triples\s*\.read\(\)', 'primary_elems(&self.triples)')
    f.R21('Arc<Triple>')
    f.requires('wf', 'self.store_wf()')
    f.ensures('exactly_the_matching_triples', 'forall|x: Arc<Triple>| #[trigger] r@.contains(x) <==> self.triples.view().contains(*x) && pattern_matches(*pattern, *x)')
    f.ensures('once_each', 'r@.no_duplicates()')
    f.body_start('proof { axiom_term_keys(); }')
    for i in range(4):
        L = f.loop(i).kind('for').iter('it')
        L.invariants(('filtered_prefix', 'out__@ == src__@.take(it.index@ as int).filter(pm(*pattern))'),
                     ('iter', 'it.seq().len() == src__@.len() && forall|k: int| 0 <= k < it.seq().len() ==> *(#[trigger] it.seq()[k]) == src__@[k]'))
        L.body_end('proof { let s = src__@.take(it.index@ + 1); assert(s.drop_last() =~= src__@.take(it.index@ as int)); assert(s.last() == *t); reveal_with_fuel(Seq::filter, 2); }')
        L.after('proof { assert(src__@.take(src__@.len() as int) =~= src__@); lemma_filter_mem(src__@, pm(*pattern)); lemma_filter_nodup(src__@, pm(*pattern)); }')


    # ---- with_config: establishes the invariant ----
    f = u.method(SRC, 'RdfStore', 'with_config').D1().ret('r')
    f.resub('E3', r'hashbrown::HashMap::with_capacity_and_hasher\(\s*config\.initial_capacity,\s*ahash::RandomState::new\(\),?\s*\)', 'HashMap::with_capacity(config.initial_capacity)', count=3)
    f.unwrap_call('E3', 'RwLock::new', count=5)
    f.sub('E3', 'FxHashSet::default()', 'primary_new()')
    f.sub('E3', 'TransactionBuffer::default()', 'tx_buffer_new()')
    f.ensures('empty_set', 'r.triples.view() == Set::<Triple>::empty()')
    f.ensures('store_invariant', 'r.store_wf()')
    f.ensures('config', 'r.config == config')

    # ---- triples_with_{subject,predicate,object} ----
    for name, comp_enum, fld in (('subject', 'S', 'subject_index'), ('predicate', 'P', 'predicate_index')):
        f = u.method(SRC, 'RdfStore', 'triples_with_' + name).D1().R6().ret('r')
        f.sub('E3', 'let index = self.%s.read();' % fld, 'let index = &self.%s;' % fld)
        f.requires('wf', 'self.store_wf()')
        f.ensures('exactly_the_matching_triples', 'forall|x: Arc<Triple>| #[trigger] r@.contains(x) <==> self.triples.view().contains(*x) && (*x).%s == *%s' % (name, name))
        f.ensures('once_each', 'r@.no_duplicates()')
        f.body_start('proof { axiom_term_keys(); axiom_arc_clone(); }')
        f.before_tail('let r__ = ')
        f.body_end(''';
proof {
    let b = bucket(self.%s@, *%s);
    assert forall|i: int| 0 <= i < b.len() implies r__@[i] == b[i] by { assert(cloned(b[i], r__@[i])); }
    assert(r__@ =~= b);
}
r__''' % (fld, name))
    f = u.method(SRC, 'RdfStore', 'triples_with_object').D1().R6().ret('r')
    f.sub('E3', 'let index = self.object_index.read();', 'let index = &self.object_index;')
    f.resub('E3', r'self\s*\.triples\s*\.read\(\)', 'primary_elems(&self.triples)')
    f.R21('Arc<Triple>')
    f.requires('wf', 'self.store_wf()')
    f.ensures('exactly_the_matching_triples', 'forall|x: Arc<Triple>| #[trigger] r@.contains(x) <==> self.triples.view().contains(*x) && (*x).object == *object')
    f.ensures('once_each', 'r@.no_duplicates()')
    f.body_start('proof { axiom_term_keys(); axiom_arc_clone(); }')
    L = f.loop(0).kind('for').iter('it')
    L.invariants(('filtered_prefix', 'out__@ == src__@.take(it.index@ as int).filter(comp_is(Comp::O, *object))'),
                 ('iter', 'it.seq().len() == src__@.len() && forall|k: int| 0 <= k < it.seq().len() ==> *(#[trigger] it.seq()[k]) == src__@[k]'))
    L.body_end('proof { let s = src__@.take(it.index@ + 1); assert(s.drop_last() =~= src__@.take(it.index@ as int)); assert(s.last() == *t); reveal_with_fuel(Seq::filter, 2); }')
    L.after('proof { assert(src__@.take(src__@.len() as int) =~= src__@); lemma_filter_mem(src__@, comp_is(Comp::O, *object)); lemma_filter_nodup(src__@, comp_is(Comp::O, *object)); }')

    # ---- clear ----
    f = u.method(SRC, 'RdfStore', 'clear').D1()
    f.sub('E3', 'pub fn clear(&self)', 'pub fn clear(&mut self)')
    f.resub_opt('E3', r'self\.triples\.write\(\)\.clear\(\);', 'primary_clear(&mut self.triples);')
    f.resub_opt('E3', r'self\.(subject_index|predicate_index)\.write\(\)\.clear\(\);', r'self.\1.clear();')
    f.resub_opt('E3', r'= \*self\.object_index\.write\(\)', '= self.object_index')
    # E3t: `drop(std::mem::take(&mut *self.F.write()))` - std: mem::take leaves T::default() behind; by the field's declared type that is the empty set / the
    # empty map / None (ASSUMED helpers, one per type)
    f.resub_opt('E3t', r'drop\(std::mem::take\(&mut \*self\.triples\.write\(\)\)\);', 'primary_clear(&mut self.triples);')
    f.resub_opt('E3t', r'drop\(std::mem::take\(&mut \*self\.(subject_index|predicate_index)\.write\(\)\)\);', r'take_map(&mut self.\1);')
    f.resub_opt('E3t', r'drop\(std::mem::take\(&mut \*self\.object_index\.write\(\)\)\);', 'take_opt_map(&mut self.object_index);')
    if re.search(r'\.(write|read)\(\)', f.text):
        raise LostAnchor('rule E3 in RdfStore::clear: a lock use of a shape no rule covers')
    f.requires('wf', 'old(self).store_wf()')
    f.ensures('empty_set', 'final(self).triples.view() == Set::<Triple>::empty()')
    f.ensures('store_invariant', 'final(self).store_wf()')


    # ---- commit_tx: the buffered operations are applied in order, as a set ----
    u.item(SRC, 'enum', 'PendingOp').D1(keep_derive=set()).resub('V1', r'^enum PendingOp', 'pub enum PendingOp', flags=re.M)
    u.trust('external_body TxId', 'E1: opaque id, only passed through')
    u.trust('external_body take_map', 'E3t: mem::take on a HashMap leaves the empty map (Default)'); u.trust('external_body take_opt_map', 'E3t: mem::take on an Option leaves None (Default)')
    u.trust('external_body tx_take', 'E3/E1: takes the buffered operations of a transaction out of the (opaque) buffer; commit_tx is specified relative to that sequence')
    f = u.method(SRC, 'RdfStore', 'commit_tx').D1().ret('r')
    f.sub('E3', 'pub fn commit_tx(&self,', 'pub fn commit_tx(&mut self,')
    f.resub('E3', r'let mut buffer = self\.tx_buffer\.write\(\);\s*buffer\.buffers\.remove\(&tx_id\)\.unwrap_or_default\(\)', 'tx_take(&mut self.tx_buffer, tx_id)')
    f.requires('wf', 'old(self).store_wf()')
    f.ensures('store_invariant', 'final(self).store_wf()')
    f.R36().R37()
    f.ensures('applied_in_issue_order', 'r == old(self).tx_buffer.pending(tx_id).len() && final(self).triples.view() == apply_ops(old(self).triples.view(), old(self).tx_buffer.pending(tx_id))')
    f.before('let count = ops.len();', 'let ghost ops0 = ops@; let ghost V0 = self.triples.view();')
    L = f.loop('for op in').kind('for').iter('it')
    L.invariants(('wf', 'self.store_wf()'), ('seq', 'it.seq() == ops0 && ops0 == old(self).tx_buffer.pending(tx_id)'),
                 ('applied_prefix', 'self.triples.view() == apply_ops(V0, ops0.take(it.index@ as int))'))
    L.before('proof { assert(ops0.take(0) =~= Seq::<PendingOp>::empty()); }')
    L.body_end('proof { let s = ops0.take(it.index@ + 1); assert(s.drop_last() =~= ops0.take(it.index@ as int)); assert(s.last() == ops0[it.index@ as int]); }')
    L.after('proof { assert(ops0.take(ops0.len() as int) =~= ops0); }')

    # ---- rollback_tx (C02 for the RDF store): discards exactly the transaction's buffered operations, touches nothing of the store ----
    u.trust('external_body tx_discard', 'E3/E1: `buffers.remove(&tx_id).map_or(0, |ops| ops.len())` on the opaque buffer')
    f = u.method(SRC, 'RdfStore', 'rollback_tx').D1().ret('r')
    f.sub('E3', 'pub fn rollback_tx(&self,', 'pub fn rollback_tx(&mut self,')
    f.resub('E3', r'let mut buffer = self\.tx_buffer\.write\(\);\s*buffer\.buffers\.remove\(&tx_id\)\.map_or\(0, \|ops\| ops\.len\(\)\)', 'tx_discard(&mut self.tx_buffer, tx_id)')
    f.ensures('nothing_of_the_transaction_is_applied', 'final(self).triples.view() == old(self).triples.view() && final(self).subject_index@ == old(self).subject_index@'
              ' && final(self).predicate_index@ == old(self).predicate_index@ && final(self).object_index == old(self).object_index', ['C02', 'C13'])
    f.ensures('buffer_discarded', 'r == old(self).tx_buffer.pending(tx_id).len() && final(self).tx_buffer.pending(tx_id) == Seq::<PendingOp>::empty()', ['C02', 'C13'])
    u.not_covered += ['RdfStore::{new, len, is_empty, triples, subjects/predicates/objects, stats, transaction buffer (insert_in_tx, remove_in_tx, find_with_pending)}', 'the primary FxHashSet<Arc<Triple>> itself (abstract view + assumed std contracts)',
                      'SPARQL parser / translator / planner_rdf / operators']
    u.assume('E3: locks dropped - one call is one critical section, sequentially')
    return u
