"""Unit RDFSTORE (C13): RdfStore::remove - index maintenance on removal (the three index buckets lose exactly the removed triple).

Only `remove` is within reach: `insert` uses the hashbrown entry API, `find` iterator adapter chains.  The primary set
(`FxHashSet<Arc<Triple>>`, looked up through Borrow<Triple>) is opaque: vstd has no key model for Arc<T>: Borrow<T>."""
import re

from vlib import Unit

SRC = 'crates/grafeo-core/src/graph/rdf/store.rs'
TRI = 'crates/grafeo-core/src/graph/rdf/triple.rs'

TEMPLATE = r'''
use vstd::prelude::*;
use std::collections::HashMap;
use std::sync::Arc;
use std::alloc::Allocator;
use std::hash::{Hash, Hasher, BuildHasher};
use std::borrow::Borrow;
use vstd::std_specs::hash::*;
verus! {
broadcast use vstd::std_specs::hash::group_hash_axioms;

// E1 stand-ins ---------------------------------------------------------------------------------------
#[verifier::external_body] #[derive(PartialEq, Eq)] pub struct Term { _p: () }
impl Hash for Term { #[verifier::external_body] fn hash<H: Hasher>(&self, state: &mut H) { } }
impl vstd::std_specs::cmp::PartialEqSpecImpl for Term {
    open spec fn obeys_eq_spec() -> bool { true }
    open spec fn eq_spec(&self, other: &Term) -> bool { *self == *other }
}
pub assume_specification[ <Term as PartialEq>::eq ](a: &Term, b: &Term) -> (r: bool) ensures r == (*a == *b);
#[verifier::external_body] pub struct OpaqueTripleSet { _p: () }      // FxHashSet<Arc<Triple>> (primary storage)
#[verifier::external_body] pub struct OpaqueTxBuffer { _p: () }
// the primary-set removal: no contract needed, only its boolean result steers the index maintenance
#[verifier::external_body] fn primary_remove(set: &mut OpaqueTripleSet, t: &Triple) -> (r: bool) { false }

@@Triple@@
impl vstd::std_specs::cmp::PartialEqSpecImpl for Triple {
    open spec fn obeys_eq_spec() -> bool { true }
    open spec fn eq_spec(&self, other: &Triple) -> bool { *self == *other }
}
pub assume_specification[ <Triple as PartialEq>::eq ](a: &Triple, b: &Triple) -> (r: bool) ensures r == (*a == *b);
impl Triple {
    @@Triple::subject@@
    @@Triple::predicate@@
    @@Triple::object@@
}
@@RdfStoreConfig@@
@@RdfStore@@

pub assume_specification<'a, K, V, S, A, Q>[ HashMap::<K, V, S, A>::get_mut::<Q> ](m: &'a mut HashMap<K, V, S, A>, k: &Q) -> (r: Option<&'a mut V>)
    where K: Eq + Hash + Borrow<Q>, Q: Hash + Eq + ?Sized, S: BuildHasher, A: Allocator
    ensures
        obeys_key_model::<K>() && builds_valid_hashers::<S>() ==> match r {
            Some(v) => contains_borrowed_key(old(m)@, k) && maps_borrowed_key_to_value(old(m)@, k, *v)
                && contains_borrowed_key(final(m)@, k) && maps_borrowed_key_to_value(final(m)@, k, *final(v))
                && (exists|mid: Map<K, V>| borrowed_key_removed(old(m)@, mid, k) && borrowed_key_removed(final(m)@, mid, k)),
            None => !contains_borrowed_key(old(m)@, k) && final(m)@ == old(m)@,
        }
;
// std: Vec::retain keeps, in order, exactly the elements the predicate accepts.  Phrased without naming the closure: for every
// spec predicate p that agrees with the closure's verdict on each element, the result is old.filter(p).
pub assume_specification<T, A: Allocator, F: FnMut(&T) -> bool>[ Vec::<T, A>::retain ](v: &mut Vec<T, A>, f: F)
    requires forall|i: int| 0 <= i < old(v)@.len() ==> #[trigger] f.requires((&old(v)@[i],)),
    ensures forall|p: spec_fn(T) -> bool|
                (forall|i: int| 0 <= i < old(v)@.len() ==> (f.ensures((&old(v)@[i],), true) ==> #[trigger] p(old(v)@[i])) && (f.ensures((&old(v)@[i],), false) ==> !p(old(v)@[i])))
                ==> final(v)@ == #[trigger] old(v)@.filter(p),
;
pub proof fn axiom_term_keys() ensures obeys_key_model::<Term>() { admit(); }

// ---- specification ---------------------------------------------------------------------------------
pub enum Comp { S, P, O }
pub open spec fn comp(t: Triple, c: Comp) -> Term { match c { Comp::S => t.subject, Comp::P => t.predicate, Comp::O => t.object } }
/// the bucket stored under key k (absent == empty)
pub open spec fn bucket(idx: Map<Term, Vec<Arc<Triple>>>, k: Term) -> Seq<Arc<Triple>> { if idx.contains_key(k) { idx[k]@ } else { Seq::empty() } }
/// index invariant: every entry sits in the bucket of its own component, and no bucket is empty
pub open spec fn index_wf(idx: Map<Term, Vec<Arc<Triple>>>, c: Comp) -> bool {
    forall|k: Term| #[trigger] idx.contains_key(k) ==> idx[k]@.len() > 0 && forall|i: int| 0 <= i < idx[k]@.len() ==> comp(*#[trigger] idx[k]@[i], c) == k
}
/// the entries that survive the removal of t (ONE closure term, so that all filters below are the same term)
pub open spec fn differs(t: Triple) -> spec_fn(Arc<Triple>) -> bool { |x: Arc<Triple>| *x != t }
/// after removing triple t: every bucket holds exactly its old entries different from t, in order
pub open spec fn index_removed(old_idx: Map<Term, Vec<Arc<Triple>>>, new_idx: Map<Term, Vec<Arc<Triple>>>, t: Triple) -> bool {
    forall|k: Term| #[trigger] bucket(new_idx, k) == bucket(old_idx, k).filter(differs(t))
}

proof fn lemma_filter_ext<T>(s: Seq<T>, p: spec_fn(T) -> bool, q: spec_fn(T) -> bool)
    requires forall|i: int| 0 <= i < s.len() ==> p(#[trigger] s[i]) == q(s[i]),
    ensures s.filter(p) == s.filter(q),
    decreases s.len()
{
    reveal_with_fuel(Seq::filter, 2);
    if s.len() > 0 {
        lemma_filter_ext(s.drop_last(), p, q);
        assert(p(s.last()) == q(s.last()));
    }
}
proof fn lemma_filter_all<T>(s: Seq<T>, p: spec_fn(T) -> bool)
    requires forall|i: int| 0 <= i < s.len() ==> p(#[trigger] s[i]),
    ensures s.filter(p) == s,
    decreases s.len()
{
    reveal_with_fuel(Seq::filter, 2);
    if s.len() > 0 {
        lemma_filter_all(s.drop_last(), p);
        assert(p(s.last()));
        assert(s.drop_last().push(s.last()) =~= s);
    }
}
proof fn lemma_filter_subset<T>(s: Seq<T>, p: spec_fn(T) -> bool)
    ensures forall|i: int| 0 <= i < s.filter(p).len() ==> s.contains(#[trigger] s.filter(p)[i]),
    decreases s.len()
{
    reveal_with_fuel(Seq::filter, 2);
    if s.len() > 0 {
        let d = s.drop_last();
        lemma_filter_subset(d, p);
        assert forall|i: int| 0 <= i < s.filter(p).len() implies s.contains(#[trigger] s.filter(p)[i]) by {
            if i < d.filter(p).len() {
                assert(d.contains(d.filter(p)[i]));
                let j = choose|j: int| 0 <= j < d.len() && d[j] == d.filter(p)[i];
                assert(s[j] == d[j]);
            } else {
                assert(s.filter(p)[i] == s.last());
                assert(s[s.len() - 1] == s.last());
            }
        }
    }
}
/// effect of `get_mut(k)` + writes through the returned reference on the map view
proof fn lemma_get_mut_effect<V>(old_m: Map<Term, V>, new_m: Map<Term, V>, k: Term)
    requires
        old_m.contains_key(k), new_m.contains_key(k),
        exists|mid: Map<Term, V>| borrowed_key_removed(old_m, mid, &k) && borrowed_key_removed(new_m, mid, &k),
        obeys_key_model::<Term>(),
    ensures
        forall|o: Term| #![trigger new_m.contains_key(o)] #![trigger old_m.contains_key(o)] #![trigger new_m[o]] #![trigger old_m[o]] o != k ==> (new_m.contains_key(o) == old_m.contains_key(o)) && (old_m.contains_key(o) ==> new_m[o] == old_m[o]),
{
    let mid = choose|mid: Map<Term, V>| borrowed_key_removed(old_m, mid, &k) && borrowed_key_removed(new_m, mid, &k);
    assert(mid == old_m.remove(k));
    assert(mid == new_m.remove(k));
    assert forall|o: Term| #![trigger new_m.contains_key(o)] #![trigger old_m.contains_key(o)] #![trigger new_m[o]] #![trigger old_m[o]] o != k implies (new_m.contains_key(o) == old_m.contains_key(o)) && (old_m.contains_key(o) ==> new_m[o] == old_m[o]) by {
        assert(mid.contains_key(o) == old_m.contains_key(o)); assert(mid.contains_key(o) == new_m.contains_key(o));
        if old_m.contains_key(o) { assert(mid[o] == old_m[o]); assert(mid[o] == new_m[o]); }
    }
}
/// The update shape produced by remove (only the bucket of the triple's own component changes, to the filtered bucket or to
/// "absent" when that is empty) yields index_removed, given the index invariant.
proof fn lemma_bucket_update(old_idx: Map<Term, Vec<Arc<Triple>>>, new_idx: Map<Term, Vec<Arc<Triple>>>, t: Triple, c: Comp)
    requires
        index_wf(old_idx, c),
        forall|o: Term| #![trigger new_idx.contains_key(o)] #![trigger old_idx.contains_key(o)] #![trigger new_idx[o]] #![trigger old_idx[o]] o != comp(t, c) ==> (new_idx.contains_key(o) == old_idx.contains_key(o)) && (old_idx.contains_key(o) ==> new_idx[o] == old_idx[o]),
        bucket(new_idx, comp(t, c)) == bucket(old_idx, comp(t, c)).filter(differs(t)),
    ensures index_removed(old_idx, new_idx, t),
            (bucket(new_idx, comp(t, c)).len() > 0 || !new_idx.contains_key(comp(t, c))) ==> index_wf(new_idx, c),
{
    assert forall|k2: Term| #[trigger] new_idx.contains_key(k2) && (bucket(new_idx, comp(t, c)).len() > 0 || !new_idx.contains_key(comp(t, c)))
        implies new_idx[k2]@.len() > 0 && forall|i: int| 0 <= i < new_idx[k2]@.len() ==> comp(*#[trigger] new_idx[k2]@[i], c) == k2 by {
        if k2 == comp(t, c) {
            let f = bucket(old_idx, k2).filter(differs(t));
            assert(new_idx[k2]@ == f);
            assert forall|i: int| 0 <= i < f.len() implies comp(*#[trigger] f[i], c) == k2 by {
                lemma_filter_subset(bucket(old_idx, k2), differs(t));
                assert(bucket(old_idx, k2).contains(f[i]));
                let j = choose|j: int| 0 <= j < bucket(old_idx, k2).len() && bucket(old_idx, k2)[j] == f[i];
                assert(comp(*old_idx[k2]@[j], c) == k2);
            }
        }
    }
    let k = comp(t, c);
    let pred = differs(t);
    assert forall|kk: Term| #[trigger] bucket(new_idx, kk) == bucket(old_idx, kk).filter(pred) by {
        if kk != k {
            assert(bucket(new_idx, kk) == bucket(old_idx, kk));
            if old_idx.contains_key(kk) {
                assert forall|i: int| 0 <= i < old_idx[kk]@.len() implies pred(#[trigger] old_idx[kk]@[i]) by {
                    assert(comp(*old_idx[kk]@[i], c) == kk);
                }
                lemma_filter_all(old_idx[kk]@, pred);
            } else {
                lemma_filter_all(Seq::<Arc<Triple>>::empty(), pred);
            }
        }
    }
}

impl RdfStore {
    @@RdfStore::remove@@
}

} // verus!
fn main() {}
'''


def build(repo):
    u = Unit('rdfstore', ['C13'], repo, TEMPLATE, features=['allocator_api'], edition2024=True)
    u.item(TRI, 'struct', 'Triple').D1(keep_derive={'PartialEq', 'Eq'}).V1()
    for n in ('subject', 'predicate', 'object'):
        u.method(TRI, 'Triple', n).D1().ret('r').ensures('field', '*r == self.%s' % n)
    u.item(SRC, 'struct', 'RdfStoreConfig').D1(keep_derive=set())
    st = u.item(SRC, 'struct', 'RdfStore').D1(keep_derive=set()).V1()
    st.sub('E3', 'triples: RwLock<FxHashSet<Arc<Triple>>>,', 'triples: OpaqueTripleSet,')
    st.resub('E3', r'(subject_index|predicate_index): RwLock<hashbrown::HashMap<Term, Vec<Arc<Triple>>, ahash::RandomState>>,', r'\1: HashMap<Term, Vec<Arc<Triple>>>,', count=2)
    st.sub('E3', 'object_index: RwLock<Option<hashbrown::HashMap<Term, Vec<Arc<Triple>>, ahash::RandomState>>>,', 'object_index: Option<HashMap<Term, Vec<Arc<Triple>>>>,')
    st.sub('E3', 'tx_buffer: RwLock<TransactionBuffer>,', 'tx_buffer: OpaqueTxBuffer,')
    for w, why in [('external_body Term', 'E1: Term is opaque; only its structural equality / hashing is used'), ('external_body Term::hash', 'E1'),
                   ('assume_specification Term::eq', 'derived PartialEq of Term is structural'), ('external_body OpaqueTripleSet', 'E1: primary FxHashSet<Arc<Triple>> (no vstd key model for Arc<T>: Borrow<T>)'),
                   ('external_body OpaqueTxBuffer', 'E1: not touched'), ('external_body primary_remove', 'E3/E1: `self.triples.write().remove(triple)`; only its boolean result matters here'),
                   ('assume_specification Triple::eq', 'derived PartialEq of Triple is structural'), ('assume_specification HashMap::get_mut', 'std semantics (as in unit TM)'),
                   ('assume_specification Vec::retain', 'std: retain keeps, in order, exactly the elements the predicate accepts'), ('admit axiom_term_keys', 'derived Hash/Eq of Term are lawful')]:
        u.trust(w, why)

    f = u.method(SRC, 'RdfStore', 'remove').D1().ret('removed_r')
    f.sub('E3', 'pub fn remove(&self,', 'pub fn remove(&mut self,')
    f.sub('E3', '        let mut triples = self.triples.write();\n', '')
    f.sub('E3', 'triples.remove(triple)', 'primary_remove(&mut self.triples, triple)')
    f.sub('E3', '        let mut subject_index = self.subject_index.write();\n', '')
    f.sub('E3', '        let mut predicate_index = self.predicate_index.write();\n', '')
    f.sub('E3', '        let mut object_index = self.object_index.write();\n', '')
    f.resub('E3', r'(?<![\.\w])(subject_index|predicate_index)\b', r'self.\1')
    f.sub('E3', '= *object_index', '= self.object_index')
    f.R6()
    f.resub_opt('X1', r'\bt\.as_ref\(\)', '(&**t)')   # Arc::as_ref == Arc::deref on the closure parameter (other closure bodies are taken verbatim)
    COMP = ['subject', 'predicate', 'object']
    f.R10('retain', '&Arc<Triple>', lambda i: 'requires (**t).%s == triple.%s, ensures /*@rdfstore::RdfStore::remove::closure#retain_%s_bucket_keeps_exactly_the_other_triples*/ r == (**t != *triple),' % (COMP[i], COMP[i], COMP[i]))
    f.requires('wf', 'index_wf(old(self).subject_index@, Comp::S) && index_wf(old(self).predicate_index@, Comp::P)'
               ' && (old(self).object_index is Some ==> index_wf(old(self).object_index->0@, Comp::O))')
    f.ensures('subject_index', 'removed_r ==> index_removed(old(self).subject_index@, final(self).subject_index@, *triple)')
    f.ensures('predicate_index', 'removed_r ==> index_removed(old(self).predicate_index@, final(self).predicate_index@, *triple)')
    f.ensures('object_index', 'removed_r && old(self).config.index_objects && old(self).object_index is Some ==> final(self).object_index is Some'
              ' && index_removed(old(self).object_index->0@, final(self).object_index->0@, *triple)')
    f.ensures('invariant_preserved', 'removed_r ==> index_wf(final(self).subject_index@, Comp::S) && index_wf(final(self).predicate_index@, Comp::P)'
              ' && (final(self).object_index is Some && old(self).config.index_objects ==> index_wf(final(self).object_index->0@, Comp::O))')
    f.ensures('absent_changes_nothing', '!removed_r ==> final(self).subject_index@ == old(self).subject_index@ && final(self).predicate_index@ == old(self).predicate_index@ && final(self).object_index == old(self).object_index')
    f.body_start('proof { axiom_term_keys(); }\nlet ghost S0 = old(self).subject_index@; let ghost P0 = old(self).predicate_index@;\nlet ghost O0 = if old(self).object_index is Some { old(self).object_index->0@ } else { Map::empty() };')
    comps = ['subject', 'predicate', 'object']
    for i in range(3):
        G0 = ['S0', 'P0', 'O0'][i]
        f.before('vec.retain(', 'let ghost b%d = vec@;\nproof { assert(%s.contains_key(triple.%s) && b%d == %s[triple.%s]@); assert forall|j: int| 0 <= j < b%d.len() implies (*#[trigger] b%d[j]).%s == triple.%s by { } }' % (i, G0, comps[i], i, G0, comps[i], i, i, comps[i], comps[i]), nth=i)
        f.after('vec.retain(', 'let ghost a%d = vec@;\nproof { assert(a%d == b%d.filter(differs(*triple))); }' % (i, i, i), nth=i)
    # after the subject block / predicate block / object block: the update shape gives index_removed
    def merge_hint(ghost0, place, comp_field, comp_enum):
        return '''proof {
    let k = triple.%s;
    let pred = differs(*triple);
    let new_m = %s;
    if !%s.contains_key(k) {
        assert(new_m == %s);                                    // get_mut returned None
        lemma_filter_all(Seq::<Arc<Triple>>::empty(), pred);
    } else if new_m.contains_key(k) {
        lemma_get_mut_effect(%s, new_m, k);                     // bucket kept (non-empty after retain)
    } else {
        assert(forall|o: Term| #![trigger new_m.contains_key(o)] o != k ==> (new_m.contains_key(o) == %s.contains_key(o)) && (%s.contains_key(o) ==> new_m[o] == %s[o]));   // bucket emptied and removed
    }
    lemma_bucket_update(%s, new_m, *triple, Comp::%s);
}''' % (comp_field, place, ghost0, ghost0, ghost0, ghost0, ghost0, ghost0, ghost0, comp_enum)
    f.before('self.subject_index.remove(', 'let ghost S1 = self.subject_index@;\nproof { lemma_get_mut_effect(S0, S1, triple.subject); assert(a0 =~= Seq::<Arc<Triple>>::empty()); }', optional=True)
    f.before('self.predicate_index.remove(', 'let ghost P1 = self.predicate_index@;\nproof { lemma_get_mut_effect(P0, P1, triple.predicate); assert(a1 =~= Seq::<Arc<Triple>>::empty()); }', optional=True)
    f.before('if let Some(vec) = self.predicate_index', merge_hint('S0', 'self.subject_index@', 'subject', 'S'))
    f.before('if self.config.index_objects', merge_hint('P0', 'self.predicate_index@', 'predicate', 'P'))
    f.before(' index.remove(', 'let ghost O1 = index@;\nproof { lemma_get_mut_effect(O0, O1, triple.object); assert(a2 =~= Seq::<Arc<Triple>>::empty()); }', optional=True)
    f.before_tail('''proof {
    if old(self).config.index_objects && old(self).object_index is Some {
        let k = triple.object;
        let pred = differs(*triple);
        if self.object_index->0@.contains_key(k) { lemma_get_mut_effect(O0, self.object_index->0@, k); }
        if !O0.contains_key(k) { lemma_filter_all(Seq::<Arc<Triple>>::empty(), pred); }
        lemma_bucket_update(O0, self.object_index->0@, *triple, Comp::O);
    }
}''')
    u.not_covered += ['RdfStore::{insert (entry API), find / triples_with_* (adapter chains), clear, transaction buffer}', 'primary set vs index agreement (the primary FxHashSet<Arc<Triple>> is opaque)',
                      'SPARQL parser / translator / planner_rdf / operators']
    u.assume('E3: locks dropped - one call is one critical section, sequentially')
    return u
