"""Unit PROPINDEX (C10, C14): maintenance of the node property index - LpgStore::{update_property_index_on_set, update_property_index_on_remove}.
"Adding or dropping a property index never changes which rows a query returns": the index of a property tells, for every node and value, exactly
whether the node holds that value; both maintenance functions re-establish that for the node being written and leave every other node / every other
index alone.  (Added after seed S6_C10, which swapped the two halves of update_property_index_on_set.)

The index is `RwLock<FxHashMap<PropertyKey, DashMap<HashableValue, FxHashSet<NodeId>>>>`: locks dropped (E3), hashbrown / DashMap -> std HashMap (E1, E1d: DashMap's
interior mutability becomes exclusive access through the outer map; the RefMut guard becomes `&mut`, `drop(guard)` disappears), PropertyKey / HashableValue / Value /
PropertyStorage are opaque with uninterpreted views."""
import re

from vlib import Unit

SRC = 'crates/grafeo-core/src/graph/lpg/store.rs'
ID = 'crates/grafeo-common/src/types/id.rs'

TEMPLATE = r'''
#![feature(allocator_api)]
use vstd::prelude::*;
use std::collections::{HashMap, HashSet};
use std::hash::{Hash, BuildHasher};
use std::borrow::Borrow;
use std::alloc::Allocator;
use vstd::std_specs::hash::*;
verus! {
broadcast use vstd::std_specs::hash::group_hash_axioms;
@@NodeId@@
// E1 stand-ins (opaque; only equality / hashing / cloning are used)
#[verifier::external_body] #[derive(PartialEq, Eq, Hash)] pub struct PropertyKey { _p: () }
#[verifier::external_body] #[derive(PartialEq, Eq, Hash)] pub struct HashableValue { _p: () }
#[verifier::external_body] pub struct Value { _p: () }
/// the index key of a value (HashableValue::new)
pub uninterp spec fn hv_of(v: Value) -> HashableValue;
impl HashableValue { #[verifier::external_body] pub fn new(v: Value) -> (r: Self) ensures r == hv_of(v) { unimplemented!() } }
impl Clone for Value { #[verifier::external_body] fn clone(&self) -> (r: Self) ensures r == *self { unimplemented!() } }
pub proof fn axiom_keys() ensures obeys_key_model::<NodeId>(), obeys_key_model::<PropertyKey>(), obeys_key_model::<HashableValue>() { admit(); }
/// the property columns: what get(node, key) returns
#[verifier::external_body] pub struct PropertyStorage { _p: () }
impl PropertyStorage {
    pub uninterp spec fn get_spec(&self, id: NodeId, key: PropertyKey) -> Option<Value>;
    #[verifier::external_body] pub fn get(&self, id: NodeId, key: &PropertyKey) -> (r: Option<Value>) ensures r == self.get_spec(id, *key) { unimplemented!() }
}
pub assume_specification<'a, K, V, S, A, Q>[ HashMap::<K, V, S, A>::get_mut::<Q> ](m: &'a mut HashMap<K, V, S, A>, k: &Q) -> (r: Option<&'a mut V>)
    where K: Eq + Hash + Borrow<Q>, Q: Hash + Eq + ?Sized, S: BuildHasher, A: Allocator
    ensures
        obeys_key_model::<K>() && builds_valid_hashers::<S>() ==> match r {
            Some(v) => contains_borrowed_key(old(m)@, k) && maps_borrowed_key_to_value(old(m)@, k, *v)
                && contains_borrowed_key(final(m)@, k) && maps_borrowed_key_to_value(final(m)@, k, *final(v))
                && (exists|mid: Map<K, V>| borrowed_key_removed(old(m)@, mid, k) && borrowed_key_removed(final(m)@, mid, k)),
            None => !contains_borrowed_key(old(m)@, k) && final(m)@ == old(m)@,
        }
;
pub type ValueIndex = HashMap<HashableValue, HashSet<NodeId>>;
// R20: `index.entry(hv).or_insert_with(FxHashSet::default).insert(n)` outlined; contract ASSUMED (entry API)
#[verifier::external_body] fn entry_or_default_insert(m: &mut ValueIndex, k: HashableValue, n: NodeId)
    ensures final(m)@.contains_key(k), final(m)@[k]@ == (if old(m)@.contains_key(k) { old(m)@[k]@ } else { Set::<NodeId>::empty() }).insert(n),
            forall|o: HashableValue| #![trigger final(m)@.contains_key(o)] #![trigger final(m)@[o]] o != k ==> (final(m)@.contains_key(o) == old(m)@.contains_key(o)) && (old(m)@.contains_key(o) ==> final(m)@[o] == old(m)@[o]),
{ m.entry(k).or_default().insert(n); }

/// node n is listed under value hv
pub open spec fn indexed(idx: Map<HashableValue, HashSet<NodeId>>, hv: HashableValue, n: NodeId) -> bool { idx.contains_key(hv) && idx[hv]@.contains(n) }
/// THE INDEX INVARIANT: the index of `key` lists n under hv exactly when n's stored value for `key` has index key hv - so an index lookup and a scan agree
pub open spec fn agrees(idx: Map<HashableValue, HashSet<NodeId>>, ps: PropertyStorage, key: PropertyKey) -> bool {
    forall|n: NodeId, hv: HashableValue| #[trigger] indexed(idx, hv, n) <==> (ps.get_spec(n, key) is Some && hv_of(ps.get_spec(n, key)->0) == hv)
}
proof fn lemma_get_mut_effect<K, V>(old_m: Map<K, V>, new_m: Map<K, V>, k: K)
    requires old_m.contains_key(k), new_m.contains_key(k), exists|mid: Map<K, V>| borrowed_key_removed(old_m, mid, &k) && borrowed_key_removed(new_m, mid, &k), obeys_key_model::<K>(),
    ensures forall|o: K| #![trigger new_m.contains_key(o)] #![trigger new_m[o]] o != k ==> (new_m.contains_key(o) == old_m.contains_key(o)) && (old_m.contains_key(o) ==> new_m[o] == old_m[o]),
{
    let mid = choose|mid: Map<K, V>| borrowed_key_removed(old_m, mid, &k) && borrowed_key_removed(new_m, mid, &k);
    assert(mid == old_m.remove(k)); assert(mid == new_m.remove(k));
    assert forall|o: K| #![trigger new_m.contains_key(o)] #![trigger new_m[o]] o != k implies (new_m.contains_key(o) == old_m.contains_key(o)) && (old_m.contains_key(o) ==> new_m[o] == old_m[o]) by {
        assert(mid.contains_key(o) == old_m.contains_key(o)); assert(mid.contains_key(o) == new_m.contains_key(o));
        if old_m.contains_key(o) { assert(mid[o] == old_m[o]); assert(mid[o] == new_m[o]); }
    }
}

// E1/E3: of LpgStore only the two fields these functions touch
pub struct LpgStore { pub property_indexes: HashMap<PropertyKey, ValueIndex>, pub node_properties: PropertyStorage }
impl LpgStore {
    @@LpgStore::update_property_index_on_set@@

    @@LpgStore::update_property_index_on_remove@@
}

// ---- the clause over the contracts: set / remove keep the index in agreement with the property storage -------------------------
// `set_node_property` calls update_property_index_on_set and THEN stores the value; `remove_node_property` likewise.  If the index agreed before and the storage
// afterwards differs exactly in (node, key) -> Some(new) / None, the index agrees again.
proof fn lemma_set_keeps_agreement(i0: Map<HashableValue, HashSet<NodeId>>, i1: Map<HashableValue, HashSet<NodeId>>, p0: PropertyStorage, p1: PropertyStorage, key: PropertyKey, node: NodeId, v: Value)
    requires agrees(i0, p0, key),
        forall|n: NodeId, hv: HashableValue| #[trigger] indexed(i1, hv, n) <==> (if n == node { hv == hv_of(v) } else { indexed(i0, hv, n) }),
        p1.get_spec(node, key) == Some(v), forall|n: NodeId| n != node ==> #[trigger] p1.get_spec(n, key) == p0.get_spec(n, key),
    ensures agrees(i1, p1, key)
{
    assert forall|n: NodeId, hv: HashableValue| #[trigger] indexed(i1, hv, n) <==> (p1.get_spec(n, key) is Some && hv_of(p1.get_spec(n, key)->0) == hv) by {
        if n != node { assert(indexed(i0, hv, n) <==> (p0.get_spec(n, key) is Some && hv_of(p0.get_spec(n, key)->0) == hv)); }
    }
}
proof fn lemma_remove_keeps_agreement(i0: Map<HashableValue, HashSet<NodeId>>, i1: Map<HashableValue, HashSet<NodeId>>, p0: PropertyStorage, p1: PropertyStorage, key: PropertyKey, node: NodeId)
    requires agrees(i0, p0, key),
        forall|n: NodeId, hv: HashableValue| #[trigger] indexed(i1, hv, n) <==> (n != node && indexed(i0, hv, n)),
        p1.get_spec(node, key) is None, forall|n: NodeId| n != node ==> #[trigger] p1.get_spec(n, key) == p0.get_spec(n, key),
    ensures agrees(i1, p1, key)
{
    assert forall|n: NodeId, hv: HashableValue| #[trigger] indexed(i1, hv, n) <==> (p1.get_spec(n, key) is Some && hv_of(p1.get_spec(n, key)->0) == hv) by {
        if n != node { assert(indexed(i0, hv, n) <==> (p0.get_spec(n, key) is Some && hv_of(p0.get_spec(n, key)->0) == hv)); }
    }
}

} // verus!
fn main() {}
'''

FRAME = ('final(self).node_properties == old(self).node_properties && final(self).property_indexes@.dom() == old(self).property_indexes@.dom()'
         ' && forall|k: PropertyKey| k != *key && old(self).property_indexes@.contains_key(k) ==> #[trigger] final(self).property_indexes@[k] == old(self).property_indexes@[k]')
PRE = 'old(self).property_indexes@.contains_key(*key) ==> agrees(old(self).property_indexes@[*key]@, old(self).node_properties, *key)'
I1FACT = '''proof {
    assert forall|n: NodeId, hv: HashableValue| #[trigger] indexed(I1, hv, n) <==> (n != node_id && indexed(I0, hv, n)) by {
        let ov = self.node_properties.get_spec(node_id, *key);
        if ov is Some {
            let ohv = hv_of(ov->0);
            if I0.contains_key(ohv) && I1.contains_key(ohv) { lemma_get_mut_effect(I0, I1, ohv); }
            if hv == ohv { } else { assert(!indexed(I0, hv, node_id)); }
        } else { assert(I1 == I0); assert(!indexed(I0, hv, node_id)); }
    }
}'''


def common(f, name):
    f.sub('E3', 'fn %s(&self,' % name, 'fn %s(&mut self,' % name)
    f.resub('E3', r'[ \t]*let indexes = self\.property_indexes\.read\(\);\n', '')
    f.resub('E1d', r'if let Some\(index\) = indexes\.get\(key\) \{', 'if let Some(index) = self.property_indexes.get_mut(key) {')
    f.resub_opt('E1d', r'if let Some\(mut nodes\) = index\.get_mut\(&old_hv\) \{', 'if let Some(nodes) = index.get_mut(&old_hv) {')
    f.resub_opt('E1d', r'[ \t]*drop\(nodes\);\n', '')
    f.requires('index_agrees_with_the_stored_properties', PRE)
    f.ensures('touches_only_this_index', FRAME)
    f.body_start('proof { axiom_keys(); }\nlet ghost P0 = self.property_indexes@;\nlet ghost mut I0 = Map::<HashableValue, HashSet<NodeId>>::empty();\nlet ghost mut s0 = Set::<NodeId>::empty(); let ghost mut s1 = Set::<NodeId>::empty();')
    f.after('if let Some(index) = self.property_indexes.get_mut(key) {', 'proof { I0 = index@; assert(P0.contains_key(*key) && P0[*key]@ == I0); assert(agrees(I0, self.node_properties, *key)); }')
    f.after('let old_hv = HashableValue::new(old_value);', 'proof { assert(indexed(I0, old_hv, node_id)); }', optional=True)
    f.after('if let Some(nodes) = index.get_mut(&old_hv) {', 'proof { s0 = nodes@; }', optional=True)
    f.after('nodes.remove(&node_id);', 'proof { s1 = nodes@; }', optional=True)
    f.before('index.remove(&old_hv);', '''proof {
    lemma_get_mut_effect(I0, index@, old_hv);
    assert(index@[old_hv]@ == s1);
    assert(s1 =~= Set::<NodeId>::empty()) by { s1.lemma_len0_is_empty(); }
    assert forall|n: NodeId| n != node_id implies !s0.contains(n) by { if s0.contains(n) { assert(s1.contains(n)); } }
}''', optional=True)
    f.body_end('proof { if P0.contains_key(*key) { lemma_get_mut_effect(P0, self.property_indexes@, *key); assert(self.property_indexes@.dom() =~= P0.dom()); } }')


def build(repo):
    u = Unit('propindex', ['C10', 'C14'], repo, TEMPLATE)
    for w, why in [('external_body struct PropertyKey', 'E1: interned key, opaque'), ('external_body struct HashableValue', 'E1: Value wrapper with Eq + Hash, opaque'), ('external_body struct Value', 'E1: opaque'),
                   ('external_body HashableValue::new', 'E1: a function of the value (uninterpreted hv_of)'), ('external_body Value::clone', 'std: clone returns an equal value'),
                   ('admit axiom_keys', 'derived / hand-written Hash + Eq of NodeId, PropertyKey, HashableValue are lawful (for HashableValue that is what unit value_laws checks on the heap-free variants)'),
                   ('external_body struct PropertyStorage', 'E1: the property columns, opaque; get() is a function of (node, key)'), ('external_body PropertyStorage::get', 'E1'),
                   ('assume_specification HashMap::get_mut', 'std semantics (as in units TM / RDFSTORE / ADJLIST)'),
                   ('external_body entry_or_default_insert', 'R20: std entry API: inserts n into the set under k (a new empty set if absent), other keys untouched')]:
        u.trust(w, why)
    u.assume('E1d: DashMap<HashableValue, FxHashSet<NodeId>> -> std HashMap reached through `&mut` of the outer map; one call = one critical section (locks dropped, E3): interleavings are not covered')
    u.item(ID, 'struct', 'NodeId').D1(keep_derive={'Clone', 'Copy', 'PartialEq', 'Eq', 'Hash'})

    f = u.method(SRC, 'LpgStore', 'update_property_index_on_set').D1()
    common(f, 'update_property_index_on_set')
    f.resub('R20', r'index\s*\.entry\(new_hv\)\s*\.or_insert_with\(FxHashSet::default\)\s*\.insert\(node_id\);', 'entry_or_default_insert(index, new_hv, node_id);')
    f.ensures('node_listed_under_exactly_its_new_value', 'old(self).property_indexes@.contains_key(*key) ==> forall|n: NodeId, hv: HashableValue| #[trigger] indexed(final(self).property_indexes@[*key]@, hv, n)'
              ' <==> (if n == node_id { hv == hv_of(*new_value) } else { indexed(old(self).property_indexes@[*key]@, hv, n) })')
    f.before('entry_or_default_insert(index, new_hv, node_id);', 'let ghost I1 = index@;\n' + I1FACT)
    f.after('entry_or_default_insert(index, new_hv, node_id);', '''proof {
    let I2 = index@;
    assert forall|n: NodeId, hv: HashableValue| #[trigger] indexed(I2, hv, n) <==> (if n == node_id { hv == hv_of(*new_value) } else { indexed(I0, hv, n) }) by {
        assert(indexed(I1, hv, n) <==> (n != node_id && indexed(I0, hv, n)));
        if hv == new_hv { } else { }
    }
}''')

    f = u.method(SRC, 'LpgStore', 'update_property_index_on_remove').D1()
    common(f, 'update_property_index_on_remove')
    f.ensures('node_no_longer_listed', 'old(self).property_indexes@.contains_key(*key) ==> forall|n: NodeId, hv: HashableValue| #[trigger] indexed(final(self).property_indexes@[*key]@, hv, n)'
              ' <==> (n != node_id && indexed(old(self).property_indexes@[*key]@, hv, n))')
    f.body_end('proof { if P0.contains_key(*key) { let I1 = self.property_indexes@[*key]@;\n' + I1FACT.replace('proof {', '', 1).rsplit('}', 1)[0] + ' } }')
    u.not_covered += ['find_nodes_by_property / find_nodes_by_properties / planner index path (iterator chains over the index)', 'create_property_index (scan of all nodes), drop_property_index',
                      'set_node_property / remove_node_property themselves (PropertyStorage::set is lock + hash-map code): the two lemmas state what they need from it',
                      'label index, edge property indexes (none exist), range index']
    return u
