"""Unit GQLLEXER (C12): "no query text can crash the embedding process" for the GQL lexer (the default front end): every method of Lexer keeps the
cursor on a UTF-8 character boundary inside the input, so no string slice in the lexer can panic, for EVERY input string (any length < 4 GiB, any
characters), and every loop terminates.

`str` byte reasoning is not available in Verus, so the input string is kept as the real `&str` but its four byte-level operations are outlined into
helpers under ASSUMED contracts over three uninterpreted functions (byte length, "is a char boundary", "the char starting here") with the facts std
guarantees for every valid UTF-8 string (axiom_str): 0 and len are boundaries, and a boundary p < len is followed by the boundary p + len_utf8(char at p).
A slice at a non-boundary is a precondition violation of the helper - exactly the panic of `&s[a..b]`."""
import re

from vlib import Unit
from rsx import LostAnchor, scan, match_close

SRC = 'crates/grafeo-adapters/src/query/gql/lexer.rs'

TEMPLATE = r'''
use vstd::prelude::*;
verus! {
global size_of usize == 8;

// ---- ASSUMED: std `str` (valid UTF-8) ---------------------------------------------------------------------------------
pub uninterp spec fn blen(s: &str) -> nat;
pub uninterp spec fn boundary(s: &str, p: int) -> bool;
pub uninterp spec fn char_at(s: &str, p: int) -> char;
pub open spec fn utf8_len(c: char) -> int { if (c as u32) < 0x80 { 1 } else if (c as u32) < 0x800 { 2 } else if (c as u32) < 0x10000 { 3 } else { 4 } }
#[verifier::external_body] pub proof fn axiom_str(s: &str) ensures
    blen(s) <= isize::MAX, boundary(s, 0), boundary(s, blen(s) as int),
    forall|p: int| 0 <= p < blen(s) && #[trigger] boundary(s, p) ==> p + utf8_len(char_at(s, p)) <= blen(s) && boundary(s, p + utf8_len(char_at(s, p))) { }
#[verifier::external_body] fn str_len(s: &str) -> (r: usize) ensures r == blen(s) { s.len() }
/// `s[p..].chars().next().unwrap_or('\0')`: PANICS unless p is a char boundary <= len
#[verifier::external_body] fn str_char_at(s: &str, p: usize) -> (r: char)
    requires p <= blen(s), boundary(s, p as int)
    ensures p < blen(s) ==> r == char_at(s, p as int), p == blen(s) ==> r == '\0'
{ s[p..].chars().next().unwrap_or('\0') }
/// `&s[a..b]` / `s[a..b].to_string()`: PANIC unless a <= b <= len and both are char boundaries
#[verifier::external_body] fn str_slice<'a>(s: &'a str, a: usize, b: usize) -> (r: &'a str)
    requires a <= b <= blen(s), boundary(s, a as int), boundary(s, b as int)
{ &s[a..b] }
#[verifier::external_body] fn str_slice_to_string(s: &str, a: usize, b: usize) -> (r: String)
    requires a <= b <= blen(s), boundary(s, a as int), boundary(s, b as int)
{ s[a..b].to_string() }
pub assume_specification[ char::is_ascii_digit ](c: &char) -> (r: bool);
pub assume_specification[ char::is_ascii_alphabetic ](c: &char) -> (r: bool);
pub assume_specification[ char::is_ascii_alphanumeric ](c: &char) -> (r: bool);

// E1: grafeo_common::utils::error::SourceSpan (four plain fields) and its constructor
#[verifier::external_body] pub struct SourceSpan { _p: () }
impl SourceSpan { #[verifier::external_body] pub fn new(start: usize, end: usize, line: u32, column: u32) -> (r: Self) { unimplemented!() } }

@@TokenKind@@
@@Token@@
// E1: the keyword table `match text.to_uppercase().as_str() { "MATCH" => .., _ => Identifier }` - string comparison, cannot panic, result not constrained
#[verifier::external_body] fn keyword_kind(text: &str) -> (r: TokenKind) { unimplemented!() }

@@Lexer@@
impl<'a> Lexer<'a> {
    /// the cursor is on a char boundary inside the input; the line / column counters cannot overflow
    /// the part of the invariant the slicing helpers need
    pub open spec fn cursor_ok(&self) -> bool { self.position <= blen(self.input) && boundary(self.input, self.position as int) }
    pub open spec fn wf(&self) -> bool {
        self.cursor_ok() && self.column <= self.position + 1 && self.line <= self.position + 1 && blen(self.input) < u32::MAX - 1
    }
    pub open spec fn moved_from(&self, o: &Lexer<'a>) -> bool { self.wf() && self.input == o.input && self.position >= o.position }

    @@Lexer::new@@

    @@Lexer::next_token@@

    @@Lexer::skip_whitespace@@

    @@Lexer::current_char@@

    @@Lexer::peek_char@@

    @@Lexer::advance@@

    @@Lexer::scan_string@@

    @@Lexer::scan_quoted_identifier@@

    @@Lexer::scan_number@@

    @@Lexer::scan_parameter@@

    @@Lexer::scan_identifier@@
}

/// tokenising any input to the end never panics and terminates: the driver every parser entry point runs (Parser::new + advance), as a contract client
fn lex_all(input: &str) -> (n: usize)
    requires blen(input) < u32::MAX - 1
{
    let mut lexer = Lexer::new(input);
    let mut n: usize = 0;
    let mut fuel: usize = str_len(input);
    proof { axiom_str(input); }
    while fuel > 0
        invariant lexer.wf(), lexer.input == input
        decreases fuel
    {
        let _t = lexer.next_token();
        if n < usize::MAX { n = n + 1; }
        fuel = fuel - 1;
    }
    n
}

} // verus!
fn main() {}
'''

AX = 'proof { axiom_str(self.input); }'
MOVED = 'final(self).moved_from(old(self))'
INV = ('cursor', 'self.wf() && self.input == old(self).input && self.position >= old(self).position')
DEC = 'blen(self.input) - self.position'


def str_rules(f):
    f.resub_opt('E1s', r'self\.input\.len\(\)', 'str_len(self.input)')
    f.resub_opt('E1s', r'self\.input\[self\.position\.\.\]\s*\.chars\(\)\s*\.next\(\)\s*\.unwrap_or\(\'\\0\'\)', 'str_char_at(self.input, self.position)')
    f.resub_opt('E1s', r'self\.input\[self\.position \+ 1\.\.\]\s*\.chars\(\)\s*\.next\(\)\s*\.unwrap_or\(\'\\0\'\)', 'str_char_at(self.input, self.position + 1)')
    f.resub_opt('E1s', r'self\.input\[(\w+)\.\.self\.position\]\.to_string\(\)', r'str_slice_to_string(self.input, \1, self.position)')
    f.resub_opt('E1s', r'&self\.input\[(\w+)\.\.self\.position\]', r'str_slice(self.input, \1, self.position)')
    if re.search(r'self\.input\s*\[', f.text) or re.search(r'self\.input\.(?!len\b)\w+\(', f.text):
        raise LostAnchor('rule E1s in %s: a use of `self.input` that none of the str helpers covers' % f.label)
    return f


def keyword_rule(f):
    t = f.text
    m = re.search(r'match text\.to_uppercase\(\)\.as_str\(\) \{', t)
    if not m:
        raise LostAnchor('rule E1k in %s: keyword table not found' % f.label)
    code = scan(t)
    cl = match_close(t, code, m.end() - 1)
    arms = t[m.end():cl]
    if not re.fullmatch(r'(\s*(?:"[A-Z_]+"|_) => TokenKind::\w+,)+\s*', arms):
        raise LostAnchor('rule E1k in %s: the keyword table has an arm that is not `"WORD" => TokenKind::X,`' % f.label)
    f.text = t[:m.start()] + 'keyword_kind(text)' + t[cl + 1:]
    f._fired('E1k', 'keyword table (%d arms) -> opaque keyword_kind(text)' % arms.count('=>'))
    return f


def build(repo):
    u = Unit('gqllexer', ['C12'], repo, TEMPLATE)
    for w, why in [('external_body axiom_str', 'std: a `str` is valid UTF-8 - 0 and len() are char boundaries and each char boundary p < len is followed by the boundary p + len_utf8(char at p); len <= isize::MAX'),
                   ('external_body str_len', 'E1s: `s.len()`'), ('external_body str_char_at', "E1s: `s[p..].chars().next().unwrap_or('\\0')` - body is the original expression; the slice precondition is a proof obligation at every call"),
                   ('external_body str_slice', 'E1s: `&s[a..b]` (precondition = no panic)'), ('external_body str_slice_to_string', 'E1s: `s[a..b].to_string()` (precondition = no panic)'),
                   ('assume_specification char::is_ascii_digit', 'std: total, result not constrained'), ('assume_specification char::is_ascii_alphabetic', 'std: total'),
                   ('assume_specification char::is_ascii_alphanumeric', 'std: total'),
                   ('external_body struct SourceSpan', 'E1: plain span record'), ('external_body SourceSpan::new', 'E1: plain constructor, cannot panic'),
                   ('external_body keyword_kind', 'E1k: the keyword table (string comparisons)')]:
        u.trust(w, why)
    u.assume('usize is 64 bits; queries are shorter than 4 GiB (u32 line / column counters): `blen(input) < u32::MAX - 1` is the precondition of Lexer::new')
    u.assume('vstd supplies the specification of char::len_utf8 (1..=4 by code point range), used as is')
    u.item(SRC, 'enum', 'TokenKind').D1(keep_derive={'Clone', 'Copy'})
    u.item(SRC, 'struct', 'Token').D1(keep_derive=set())
    u.item(SRC, 'struct', 'Lexer').D1(keep_derive=set()).V1()

    f = u.method(SRC, 'Lexer', 'new').D1().ret('r')
    f.requires('shorter_than_4gib', 'blen(input) < u32::MAX - 1')
    f.ensures('starts_on_a_boundary', 'r.wf() && r.input == input && r.position == 0')
    f.body_start('proof { axiom_str(input); }')

    f = str_rules(u.method(SRC, 'Lexer', 'current_char').D1().ret('r'))
    f.requires('cursor_on_boundary', 'self.cursor_ok()')
    f.ensures('char_here', '(self.position < blen(self.input) ==> r == char_at(self.input, self.position as int)) && (self.position == blen(self.input) ==> r == \'\\0\')')

    f = str_rules(u.method(SRC, 'Lexer', 'peek_char').D1().ret('r'))
    f.requires('next_byte_is_a_boundary', 'self.cursor_ok() && (self.position + 1 < blen(self.input) ==> boundary(self.input, self.position + 1))')
    f.body_start(AX)

    f = str_rules(u.method(SRC, 'Lexer', 'advance').D1())
    f.requires('cursor_on_boundary', 'old(self).wf()')
    f.ensures('stays_on_a_char_boundary', MOVED)
    f.ensures('one_char_forward', '(old(self).position < blen(old(self).input) ==> final(self).position == old(self).position + utf8_len(char_at(old(self).input, old(self).position as int)))'
              ' && (old(self).position >= blen(old(self).input) ==> final(self).position == old(self).position)')
    f.body_start(AX)

    f = str_rules(u.method(SRC, 'Lexer', 'skip_whitespace').D1())
    f.requires('cursor_on_boundary', 'old(self).wf()')
    f.ensures('stays_on_a_char_boundary', MOVED)
    L = f.loop(0).kind('while')
    L.invariants(INV).decreases(DEC)
    L.body_start(AX)

    for name in ('scan_string', 'scan_quoted_identifier', 'scan_number', 'scan_parameter', 'scan_identifier'):
        f = str_rules(u.method(SRC, 'Lexer', name).D1().ret('k'))
        if name == 'scan_identifier':
            keyword_rule(f)
        f.requires('cursor_on_boundary', 'old(self).wf()')
        f.ensures('stays_on_a_char_boundary', MOVED)
        f.body_start(AX)
        nloops = {'scan_string': 1, 'scan_quoted_identifier': 1, 'scan_number': 2, 'scan_parameter': 1, 'scan_identifier': 1}[name]
        for i in range(nloops):
            L = f.loop(i).kind('while')
            L.invariants(INV).decreases(DEC)
            L.body_start(AX)
    # the char under the cursor is ASCII at the two peek sites, so the next byte is a boundary
    f = u.pieces['Lexer::scan_quoted_identifier']
    f = u.pieces['Lexer::scan_number']

    f = str_rules(u.method(SRC, 'Lexer', 'next_token').D1().ret('t'))
    f.requires('cursor_on_boundary', 'old(self).wf()')
    f.ensures('stays_on_a_char_boundary', MOVED)
    f.after('self.skip_whitespace();', AX)
    u.not_covered += ['gql/parser.rs (recursive descent over the token stream: recursion depth, Vec growth)', 'cypher / gremlin / graphql / sparql lexers and parsers (feature-gated; same shape, not under contract)',
                      'translators, binder, planner', 'the keyword table (string comparison)']
    return u
