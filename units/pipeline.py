"""Unit PIPELINE (C17, C11): Pipeline::{push_through, push_through_from} - the rows that reach the sink are exactly what the operator chain emits for the
chunk: every row an intermediate operator emits is handed on to the next operator, whatever continue/stop flags the operators return.
The operators (`Vec<Box<dyn PushOperator>>`) and the sink (`Box<dyn Sink>`) are opaque stand-ins: an operator is an uninterpreted state machine
(out / cont / after as functions of its state and the rows pushed), a sink appends the rows it consumes; ChunkCollector is the same stand-in (its
real consume() skips empty chunks, so "no chunk collected" == "no row collected")."""
from vlib import Unit

SRC = 'crates/grafeo-core/src/execution/pipeline.rs'

TEMPLATE = r'''
use vstd::prelude::*;
verus! {
global size_of usize == 8;
#[verifier::external_body] pub struct Row { _p: () }
#[verifier::external_body] pub struct OperatorError { _p: () }
#[verifier::external_body] pub struct DataChunk { _p: () }
impl DataChunk { pub uninterp spec fn rows(&self) -> Seq<Row>; }
/// E1: `Box<dyn Sink>` and ChunkCollector - abstract state = the rows consumed so far
#[verifier::external_body] pub struct SinkLog { _p: () }
pub type ChunkCollector = SinkLog;
impl SinkLog {
    pub uninterp spec fn log(&self) -> Seq<Row>;
    #[verifier::external_body] pub fn new() -> (r: Self) ensures r.log() == Seq::<Row>::empty() { unimplemented!() }
    #[verifier::external_body] pub fn consume(&mut self, chunk: DataChunk) -> (r: Result<bool, OperatorError>)
        ensures r is Ok ==> final(self).log() == old(self).log() + chunk.rows() { unimplemented!() }
    /// ChunkCollector::is_empty: consume() keeps only non-empty chunks, so "no chunk" is "no row"
    #[verifier::external_body] pub fn is_empty(&self) -> (r: bool) ensures r == (self.log().len() == 0) { unimplemented!() }
    /// ChunkCollector::into_single_chunk: the concatenation of what was collected
    #[verifier::external_body] pub fn into_single_chunk(self) -> (r: DataChunk) ensures r.rows() == self.log() { unimplemented!() }
}
/// E1: `Box<dyn PushOperator>` - an uninterpreted state machine
#[verifier::external_body] pub struct OpaqueOp { _p: () }
impl OpaqueOp {
    pub uninterp spec fn out(&self, input: Seq<Row>) -> Seq<Row>;
    pub uninterp spec fn cont(&self, input: Seq<Row>) -> bool;
    pub uninterp spec fn after(&self, input: Seq<Row>) -> OpaqueOp;
    #[verifier::external_body] pub fn push(&mut self, chunk: DataChunk, sink: &mut SinkLog) -> (r: Result<bool, OperatorError>)
        ensures r is Ok ==> final(sink).log() == old(sink).log() + old(self).out(chunk.rows()) && *final(self) == old(self).after(chunk.rows()) && r->Ok_0 == old(self).cont(chunk.rows())
    { unimplemented!() }
}
/// what reaches the final sink when `input` enters the chain at operator i: each operator's output is the next one's input; an operator that emits
/// nothing ends the journey of this chunk
pub open spec fn chain(ops: Seq<OpaqueOp>, i: int, input: Seq<Row>) -> Seq<Row> decreases ops.len() - i
{
    if i < 0 || i >= ops.len() { input }
    else if i == ops.len() - 1 { ops[i].out(input) }
    else { let o = ops[i].out(input); if o.len() == 0 { Seq::empty() } else { chain(ops, i + 1, o) } }
}
// E1: of Pipeline only the operator chain and the sink (the source is not used by these functions)
pub struct Pipeline { pub operators: Vec<OpaqueOp>, pub sink: SinkLog }
impl Pipeline {
    @@Pipeline::push_through@@

    @@Pipeline::push_through_from@@
}
} // verus!
fn main() {}
'''

INV = ('OPS == old(self).operators@ && LOG0 == old(self).sink.log() && ROWS0 == chunk.rows() && self.operators@.len() == OPS.len() && self.sink.log() == LOG0'
       ' && (forall|j: int| i <= j < OPS.len() ==> self.operators@[j] == #[trigger] OPS[j])'
       ' && chain(OPS, START, ROWS0) == chain(OPS, i as int, current_chunk.rows())')


def common(f, start, inside):
    f.resub_opt('E1', r'&mut \*self\.sink', '&mut self.sink')
    f.body_start('let ghost OPS = self.operators@; let ghost LOG0 = self.sink.log(); let ghost ROWS0 = chunk.rows();\nproof { assert(LOG0 + Seq::<Row>::empty() =~= LOG0); }')
    L = f.loop(0).kind('for')
    L.invariants(('nothing_delivered_yet_and_nothing_lost', INV.replace('START', start)), ('inside', inside))
    L.body_start('proof { assert(LOG0 + Seq::<Row>::empty() =~= LOG0); }')
    return L


def build(repo):
    u = Unit('pipeline', ['C17', 'C11'], repo, TEMPLATE)
    for w, why in [('external_body struct Row', 'E1'), ('external_body struct OperatorError', 'E1'), ('external_body struct DataChunk', 'E1: abstract state = its logical rows'),
                   ('external_body struct SinkLog', 'E1: Box<dyn Sink> / ChunkCollector'), ('external_body SinkLog::new', 'ChunkCollector::new: nothing collected'),
                   ('external_body SinkLog::consume', 'a sink appends the rows of the chunk'), ('external_body SinkLog::is_empty', 'ASSUMED from ChunkCollector::{consume, is_empty}: only non-empty chunks are kept'),
                   ('external_body SinkLog::into_single_chunk', 'ASSUMED from ChunkCollector::into_single_chunk / DataChunk::concat: concatenation in order'),
                   ('external_body struct OpaqueOp', 'E1: Box<dyn PushOperator> as an uninterpreted state machine'), ('external_body OpaqueOp::push', 'E1: emits out(state, rows) into the sink it is given, returns cont(state, rows), moves to after(state, rows)')]:
        u.trust(w, why)
    u.assume('an operator or sink that returns Err is not constrained (the `?` exits are outside the contract)')
    f = u.method(SRC, 'Pipeline', 'push_through').D1().ret('res')
    f.ensures('every_emitted_row_reaches_the_sink', 'res is Ok ==> final(self).sink.log() == old(self).sink.log() + chain(old(self).operators@, 0, chunk.rows())')
    common(f, '0', 'num_operators == OPS.len() && i < OPS.len()')
    f = u.method(SRC, 'Pipeline', 'push_through_from').D1().ret('res')
    f.requires('start_in_range', 'start <= old(self).operators@.len()')
    f.ensures('every_emitted_row_reaches_the_sink', 'res is Ok ==> final(self).sink.log() == old(self).sink.log() + chain(old(self).operators@, start as int, chunk.rows())')
    common(f, 'start as int', '(i < OPS.len() || (start as int == OPS.len() && i == start && current_chunk.rows() == ROWS0)) && start <= OPS.len()')
    f.before_tail('proof { assert(LOG0 + Seq::<Row>::empty() =~= LOG0); }') if False else None
    u.not_covered += ['Pipeline::{execute, finalize_all} (dyn Source, finalize chains)', 'execution/parallel/pipeline.rs (the same loop, per worker; threads)', 'the operators themselves other than push-based LIMIT / SKIP (unit pushlimit)']
    return u
