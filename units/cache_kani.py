"""Kani unit CACHE (C10, BOUNDED): the plan-cache key (CacheKey::new / normalize_query) does not conflate queries that differ inside a string literal."""
import os
from klib import KaniUnit

REL = 'crates/grafeo-engine/src/query/cache.rs'


def build(repo):
    u = KaniUnit('cache', ['C10'], 'grafeo-engine', cargo_args=[], copy_crates=['grafeo-common', 'grafeo-core', 'grafeo-adapters', 'grafeo-engine'])
    u.module = 'query::cache::verif_cache'
    u.append(REL, open(os.path.join(os.path.dirname(os.path.dirname(os.path.abspath(__file__))), 'kani', 'cache.rs')).read())
    for a, b in ((4, 3), (3, 3)):
        u.harness('same_key_same_literals_%d_%d' % (a, b), 'cache::CacheKey::new::equal_keys_agree_inside_string_literals[len=%d,%d]' % (a, b), kind='bounded',
                  bound='query texts of exactly %d and %d bytes over the alphabet {space, quote, a}' % (a, b), timeout=1500)
    u.functions = [('CacheKey::new, normalize_query', REL)]
    u.assumptions = ['BOUNDED: see each harness']
    u.not_covered = ['QueryCache / LruCache (Mutex + HashMap), longer texts, double quotes / escapes']
    return u
