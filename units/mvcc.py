"""Unit MVCC (C01, C02): EpochId / VersionInfo visibility predicates, Version::new, VersionChain::{new, add_version, version_count, gc, ...}
   + snapshot-stability lemmas over the spec predicates + LpgStore::discard_uncommitted_versions (store-level rollback of version chains)."""
from vlib import Unit

MV = 'crates/grafeo-common/src/mvcc.rs'
ST = 'crates/grafeo-core/src/graph/lpg/store.rs'
ID = 'crates/grafeo-common/src/types/id.rs'

TEMPLATE = r'''
use vstd::prelude::*;
use std::collections::VecDeque;
use std::collections::HashMap;
use std::collections::HashSet;
use vstd::std_specs::hash::*;
verus! {
broadcast use vstd::std_specs::hash::group_hash_axioms;

@@EpochId@@
@@TxId@@

impl EpochId {
    @@EpochId::new@@
    @@EpochId::as_u64@@
    @@EpochId::is_visible_at@@
}
impl TxId {
    @@TxId::new@@
    @@TxId::as_u64@@
}

// derived PartialEq of a tuple struct over u64 is structural (trusted, one line per type)
pub assume_specification[ <TxId as PartialEq>::eq ](a: &TxId, b: &TxId) -> (r: bool) ensures r == (*a == *b);
pub assume_specification<T, A: std::alloc::Allocator>[ VecDeque::<T, A>::is_empty ](v: &VecDeque<T, A>) -> (r: bool) ensures r == (v@.len() == 0);

@@VersionInfo@@

// ---- specification: the property's own words -------------------------------------------------
/// committed-at-or-before e and not deleted at-or-before e
pub open spec fn vis_at(v: VersionInfo, e: EpochId) -> bool {
    v.created_epoch.0 <= e.0 && (v.deleted_epoch is None || (v.deleted_epoch->0).0 > e.0)
}
/// "the data that was committed when the transaction began, plus the transaction's own writes"
pub open spec fn vis_to(v: VersionInfo, e: EpochId, tx: TxId) -> bool {
    if v.created_by == tx { v.deleted_epoch is None } else { vis_at(v, e) }
}

impl VersionInfo {
    @@VersionInfo::new@@
    @@VersionInfo::mark_deleted@@
    @@VersionInfo::is_visible_at@@
    @@VersionInfo::is_visible_to@@
}

@@Version@@
impl<T> Version<T> {
    @@Version::new@@
}

@@VersionChain@@

pub open spec fn infos<T>(c: Seq<Version<T>>) -> Seq<VersionInfo> { Seq::new(c.len(), |i: int| c[i].info) }

/// index of the first (newest-first) version a reader (e, t) sees, or -1
pub open spec fn first_vis(c: Seq<VersionInfo>, e: EpochId, t: TxId) -> int
    decreases c.len()
{
    if c.len() == 0 { -1 } else if vis_to(c[0], e, t) { 0 } else { let r = first_vis(c.subrange(1, c.len() as int), e, t); if r < 0 { -1 } else { r + 1 } }
}
pub open spec fn first_at(c: Seq<VersionInfo>, e: EpochId) -> int
    decreases c.len()
{
    if c.len() == 0 { -1 } else if vis_at(c[0], e) { 0 } else { let r = first_at(c.subrange(1, c.len() as int), e); if r < 0 { -1 } else { r + 1 } }
}

proof fn lemma_first_at_char(c: Seq<VersionInfo>, e: EpochId)
    ensures
        -1 <= first_at(c, e) < c.len(),
        first_at(c, e) >= 0 ==> vis_at(c[first_at(c, e)], e),
        forall|i: int| 0 <= i < c.len() && (first_at(c, e) < 0 || i < first_at(c, e)) ==> !vis_at(#[trigger] c[i], e),
    decreases c.len()
{
    if c.len() > 0 && !vis_at(c[0], e) {
        let t = c.subrange(1, c.len() as int);
        lemma_first_at_char(t, e);
        assert forall|i: int| 0 <= i < c.len() && (first_at(c, e) < 0 || i < first_at(c, e)) implies !vis_at(#[trigger] c[i], e) by {
            if i > 0 { assert(c[i] == t[i - 1]); }
        }
    }
}

proof fn lemma_first_vis_char(c: Seq<VersionInfo>, e: EpochId, t: TxId)
    ensures
        -1 <= first_vis(c, e, t) < c.len(),
        first_vis(c, e, t) >= 0 ==> vis_to(c[first_vis(c, e, t)], e, t),
        forall|i: int| 0 <= i < c.len() && (first_vis(c, e, t) < 0 || i < first_vis(c, e, t)) ==> !vis_to(#[trigger] c[i], e, t),
    decreases c.len()
{
    if c.len() > 0 && !vis_to(c[0], e, t) {
        let s = c.subrange(1, c.len() as int);
        lemma_first_vis_char(s, e, t);
        assert forall|i: int| 0 <= i < c.len() && (first_vis(c, e, t) < 0 || i < first_vis(c, e, t)) implies !vis_to(#[trigger] c[i], e, t) by {
            if i > 0 { assert(c[i] == s[i - 1]); }
        }
    }
}
/// the version a chain shows to a reader, as the property states it: the newest version the reader may see
pub open spec fn shows_at<T>(c: Seq<Version<T>>, e: EpochId, r: Option<&T>) -> bool {
    match r {
        Some(d) => first_at(infos(c), e) >= 0 && *d == c[first_at(infos(c), e)].data,
        None => first_at(infos(c), e) < 0,
    }
}
pub open spec fn shows_to<T>(c: Seq<Version<T>>, e: EpochId, t: TxId, r: Option<&T>) -> bool {
    match r {
        Some(d) => first_vis(infos(c), e, t) >= 0 && *d == c[first_vis(infos(c), e, t)].data,
        None => first_vis(infos(c), e, t) < 0,
    }
}
/// rollback keeps exactly the other transactions' versions (ONE closure term for every filter below)
pub open spec fn not_by<T>(tx: TxId) -> spec_fn(Version<T>) -> bool { |v: Version<T>| v.info.created_by != tx }

// std: VecDeque::retain keeps, in order, exactly the elements the predicate accepts (phrased without naming the closure)
pub assume_specification<T, A: std::alloc::Allocator, F: FnMut(&T) -> bool>[ VecDeque::<T, A>::retain ](v: &mut VecDeque<T, A>, f: F)
    requires forall|i: int| 0 <= i < old(v)@.len() ==> #[trigger] f.requires((&old(v)@[i],)),
    ensures forall|p: spec_fn(T) -> bool|
                (forall|i: int| 0 <= i < old(v)@.len() ==> (f.ensures((&old(v)@[i],), true) ==> #[trigger] p(old(v)@[i])) && (f.ensures((&old(v)@[i],), false) ==> !p(old(v)@[i])))
                ==> final(v)@ == #[trigger] old(v)@.filter(p),
;

// ---- snapshot stability (C01: repeatable reads, no dirty / phantom versions) ------------------
/// A foreign version stamped after the reader's epoch, pushed in front, does not change what the reader sees.
proof fn lemma_stable_add(c: Seq<VersionInfo>, nv: VersionInfo, e: EpochId, t: TxId)
    requires nv.created_epoch.0 > e.0, nv.created_by != t,
    ensures first_vis(seq![nv] + c, e, t) == (if first_vis(c, e, t) < 0 { -1 } else { first_vis(c, e, t) + 1 }),
{
    let d = seq![nv] + c;
    assert(d.subrange(1, d.len() as int) =~= c);
    assert(d[0] == nv);
}
/// The reader's own new version is what it sees next (read-your-writes).
proof fn lemma_own_write_visible(c: Seq<VersionInfo>, nv: VersionInfo, e: EpochId, t: TxId)
    requires nv.created_by == t, nv.deleted_epoch is None,
    ensures first_vis(seq![nv] + c, e, t) == 0,
{
    assert((seq![nv] + c)[0] == nv);
}
/// Marking a foreign version deleted at an epoch after the reader's does not change its visibility to the reader.
proof fn lemma_stable_delete(v: VersionInfo, d: EpochId, e: EpochId, t: TxId)
    requires d.0 > e.0, v.created_by != t, v.deleted_epoch is None,
    ensures vis_to(VersionInfo { deleted_epoch: Some(d), ..v }, e, t) == vis_to(v, e, t),
{ }
/// A version stamped after the reader's epoch by someone else is never visible to the reader (no dirty read).
proof fn lemma_future_invisible(v: VersionInfo, e: EpochId, t: TxId)
    requires v.created_epoch.0 > e.0, v.created_by != t,
    ensures !vis_to(v, e, t),
{ }

// ---- garbage collection: what a pinned reader relies on ---------------------------------------
/// chain discipline under which dropping old versions is safe: an older version was deleted no later than
/// the creation of every newer one (an update supersedes its predecessor)
pub open spec fn superseded(c: Seq<VersionInfo>) -> bool {
    forall|i: int, j: int| 0 <= i < j < c.len() ==> (#[trigger] c[j]).deleted_epoch is Some && (c[j].deleted_epoch->0).0 <= (#[trigger] c[i]).created_epoch.0
}
proof fn lemma_take_first_at(c: Seq<VersionInfo>, k: int, e: EpochId)
    requires 0 <= k <= c.len(), first_at(c, e) < k,
    ensures first_at(c.take(k), e) == first_at(c, e) || (first_at(c, e) < 0 && first_at(c.take(k), e) < 0),
    decreases c.len()
{
    lemma_first_at_char(c, e);
    lemma_first_at_char(c.take(k), e);
    let a = first_at(c, e); let b = first_at(c.take(k), e);
    assert forall|i: int| 0 <= i < k implies c.take(k)[i] == c[i] by { }
    if a >= 0 {
        assert(c.take(k)[a] == c[a]);
        if b < 0 || b > a { assert(!vis_at(c.take(k)[a], e)); }
        if b >= 0 && b < a { assert(c.take(k)[b] == c[b]); assert(!vis_at(c[b], e)); }
    } else {
        if b >= 0 { assert(c.take(k)[b] == c[b]); assert(!vis_at(c[b], e)); }
    }
}
/// gc contract (prefix kept; every version >= min kept; first older one kept) + discipline ==> readers at e >= min unaffected
proof fn lemma_gc_preserves_reads(c: Seq<VersionInfo>, k: int, min: EpochId, e: EpochId)
    requires
        0 <= k <= c.len(), e.0 >= min.0, superseded(c),
        forall|i: int| 0 <= i < c.len() && (#[trigger] c[i]).created_epoch.0 >= min.0 ==> i < k,
        forall|i: int| 0 <= i < c.len() && (#[trigger] c[i]).created_epoch.0 < min.0
            && (forall|j: int| 0 <= j < i ==> (#[trigger] c[j]).created_epoch.0 >= min.0) ==> i < k,
    ensures
        first_at(c.take(k), e) == first_at(c, e),
{
    lemma_first_at_char(c, e);
    let a = first_at(c, e);
    if a >= k {
        // c[a] is old and not the first old one: some older-than-min version p < a exists; superseded ==> c[a] deleted <= c[p].created < min <= e
        assert(c[a].created_epoch.0 < min.0);
        let p = choose|p: int| 0 <= p < a && (#[trigger] c[p]).created_epoch.0 < min.0;
        if exists|p: int| 0 <= p < a && (#[trigger] c[p]).created_epoch.0 < min.0 {
            assert(c[a].deleted_epoch is Some && (c[a].deleted_epoch->0).0 <= c[p].created_epoch.0);
            assert(!vis_at(c[a], e));
        } else {
            assert(forall|j: int| 0 <= j < a ==> (#[trigger] c[j]).created_epoch.0 >= min.0);
            assert(a < k);
        }
    }
    lemma_take_first_at(c, k, e);
    if a < 0 { lemma_first_at_char(c.take(k), e); }
}

impl<T> VersionChain<T> {
    @@VersionChain::new@@
    @@VersionChain::add_version@@
    @@VersionChain::version_count@@
    @@VersionChain::gc@@
    @@VersionChain::visible_at@@
    @@VersionChain::visible_to@@
    @@VersionChain::modified_by@@
    @@VersionChain::has_conflict@@
    @@VersionChain::mark_deleted@@
    @@VersionChain::remove_versions_by@@
}
impl<T: Clone> VersionChain<T> {
    @@VersionChain::get_mut@@
}


// ================= store-level rollback (C02): LpgStore::discard_uncommitted_versions =================
@@NodeId@@
@@EdgeId@@
// E1 stand-ins: the records are opaque; LpgStore is reduced to the two maps the function touches (locks dropped, FxHashMap -> std HashMap)
#[verifier::external_body] pub struct NodeRecord { _p: () }
impl NodeRecord {
    pub uninterp spec fn deleted(&self) -> bool;
    #[verifier::external_body] pub fn is_deleted(&self) -> (r: bool) ensures r == self.deleted() { unimplemented!() }
}
#[verifier::external_body] fn collect_node_props(ps: &PropertyStorage, id: NodeId) -> PropertyMap { unimplemented!() }
/// grafeo_core::graph::lpg::Node (E1: SmallVec -> Vec, BTreeMap -> opaque)
pub struct Node { pub id: NodeId, pub labels: Vec<ArcStr>, pub properties: PropertyMap }
impl Node {
    #[verifier::external_body] pub fn new(id: NodeId) -> (r: Node) ensures r.id == id { unimplemented!() }
}
/// WHAT A READER MAY SEE OF A NODE (C01): the node exists for the reader iff its chain has a version the reader may see and the newest such version is not a deletion
pub open spec fn node_seen(nodes: Map<NodeId, VersionChain<NodeRecord>>, id: NodeId, k: int, r: Option<Node>) -> bool {
    match r {
        Some(n) => nodes.contains_key(id) && 0 <= k < nodes[id].versions@.len() && !nodes[id].versions@[k].data.deleted() && n.id == id,
        None => !nodes.contains_key(id) || k < 0 || (k < nodes[id].versions@.len() && nodes[id].versions@[k].data.deleted()),
    }
}
// of EdgeRecord the fields the store-level getters read (E1: flags / property arena fields stay opaque behind `deleted()`)
#[verifier::external_body] pub struct EdgeRest { _p: () }
pub struct EdgeRecord { pub id: EdgeId, pub src: NodeId, pub dst: NodeId, pub type_id: u32, pub rest: EdgeRest }
impl EdgeRecord {
    pub uninterp spec fn deleted(&self) -> bool;
    #[verifier::external_body] pub fn is_deleted(&self) -> (r: bool) ensures r == self.deleted() { unimplemented!() }
}
#[verifier::external_body] pub struct ArcStr { _p: () }
impl Clone for ArcStr { #[verifier::external_body] fn clone(&self) -> (r: Self) ensures r == *self { unimplemented!() } }
#[verifier::external_body] pub struct PropertyStorage { _p: () }
#[verifier::external_body] pub struct PropertyMap { _p: () }
#[verifier::external_body] fn collect_props(ps: &PropertyStorage, id: EdgeId) -> PropertyMap { unimplemented!() }
/// grafeo_core::graph::lpg::Edge (the materialised edge handed to operators): the fields the contract talks about
pub struct Edge { pub id: EdgeId, pub src: NodeId, pub dst: NodeId, pub edge_type: ArcStr, pub properties: PropertyMap }
impl Edge {
    #[verifier::external_body] pub fn new(id: EdgeId, src: NodeId, dst: NodeId, edge_type: ArcStr) -> (r: Edge)
        ensures r.id == id && r.src == src && r.dst == dst && r.edge_type == edge_type { unimplemented!() }
}
/// WHAT A READER MAY SEE OF AN EDGE (C01): the edge exists for reader (e, t) iff its chain has a version the reader may see and the newest such
/// version is not a deletion (and its type id is in the type table); the endpoints handed out are those of exactly that version
pub open spec fn edge_seen(edges: Map<EdgeId, VersionChain<EdgeRecord>>, types: Seq<ArcStr>, id: EdgeId, k: int, r: Option<Edge>) -> bool {
    match r {
        Some(e) => edges.contains_key(id) && 0 <= k < edges[id].versions@.len() && !edges[id].versions@[k].data.deleted()
            && e.id == id && e.src == edges[id].versions@[k].data.src && e.dst == edges[id].versions@[k].data.dst
            && edges[id].versions@[k].data.type_id < types.len() && e.edge_type == types[edges[id].versions@[k].data.type_id as int],
        None => !edges.contains_key(id) || k < 0 || (k < edges[id].versions@.len() && (edges[id].versions@[k].data.deleted() || edges[id].versions@[k].data.type_id >= types.len())),
    }
}
pub struct LpgStore {
    pub nodes: HashMap<NodeId, VersionChain<NodeRecord>>,
    pub edges: HashMap<EdgeId, VersionChain<EdgeRecord>>,
    pub id_to_edge_type: Vec<ArcStr>,
    pub edge_properties: PropertyStorage,
    pub id_to_label: Vec<ArcStr>,
    pub node_labels: HashMap<NodeId, HashSet<u32>>,
    pub node_properties: PropertyStorage,
}
pub proof fn axiom_id_keys() ensures obeys_key_model::<NodeId>(), obeys_key_model::<EdgeId>() { admit(); }
pub assume_specification<'a, K, V, S, A, Q>[ HashMap::<K, V, S, A>::get_mut::<Q> ](m: &'a mut HashMap<K, V, S, A>, k: &Q) -> (r: Option<&'a mut V>)
    where K: Eq + std::hash::Hash + std::borrow::Borrow<Q>, Q: std::hash::Hash + Eq + ?Sized, S: std::hash::BuildHasher, A: std::alloc::Allocator
    ensures
        obeys_key_model::<K>() && builds_valid_hashers::<S>() ==> match r {
            Some(v) => contains_borrowed_key(old(m)@, k) && maps_borrowed_key_to_value(old(m)@, k, *v)
                && contains_borrowed_key(final(m)@, k) && maps_borrowed_key_to_value(final(m)@, k, *final(v))
                && (exists|mid: Map<K, V>| borrowed_key_removed(old(m)@, mid, k) && borrowed_key_removed(final(m)@, mid, k)),
            None => !contains_borrowed_key(old(m)@, k) && final(m)@ == old(m)@,
        }
;
// R32 / R33: the keys of a map, each exactly once (std: values_mut / retain visit every entry once)
#[verifier::external_body] fn map_keys<K: Copy + Eq + std::hash::Hash, V>(m: &HashMap<K, V>) -> (r: Vec<K>)
    ensures r@.no_duplicates(), forall|k: K| #[trigger] r@.contains(k) <==> m@.contains_key(k) { m.keys().copied().collect() }

/// rollback of one map of version chains: every version created by tx is gone, every other version of every entity is untouched,
/// and an entity left without versions is dropped
pub open spec fn rolled_back<K, T>(m0: Map<K, VersionChain<T>>, m1: Map<K, VersionChain<T>>, tx: TxId) -> bool {
    forall|id: K| #![trigger m1.contains_key(id)] #![trigger m0.contains_key(id)]
        (m1.contains_key(id) == (m0.contains_key(id) && m0[id].versions@.filter(not_by::<T>(tx)).len() > 0))
        && (m1.contains_key(id) ==> m1[id].versions@ == m0[id].versions@.filter(not_by::<T>(tx)))
}
/// effect of `get_mut(k)` + writes through the returned reference on the map view
proof fn lemma_get_mut_frame<K, V>(pre: Map<K, V>, post: Map<K, V>, k: K)
    requires pre.contains_key(k), post.contains_key(k), exists|mid: Map<K, V>| borrowed_key_removed(pre, mid, &k) && borrowed_key_removed(post, mid, &k), obeys_key_model::<K>(),
    ensures forall|o: K| #![trigger post.contains_key(o)] #![trigger pre.contains_key(o)] #![trigger post[o]] #![trigger pre[o]] o != k ==> (post.contains_key(o) == pre.contains_key(o)) && (pre.contains_key(o) ==> post[o] == pre[o]),
{
    let mid = choose|mid: Map<K, V>| borrowed_key_removed(pre, mid, &k) && borrowed_key_removed(post, mid, &k);
    assert(mid == pre.remove(k)); assert(mid == post.remove(k));
    assert forall|o: K| #![trigger post.contains_key(o)] #![trigger pre.contains_key(o)] #![trigger post[o]] #![trigger pre[o]] o != k implies (post.contains_key(o) == pre.contains_key(o)) && (pre.contains_key(o) ==> post[o] == pre[o]) by {
        assert(mid.contains_key(o) == pre.contains_key(o)); assert(mid.contains_key(o) == post.contains_key(o));
        if pre.contains_key(o) { assert(mid[o] == pre[o]); assert(mid[o] == post[o]); }
    }
}
impl<T> VersionChain<T> {
    @@VersionChain::is_empty@@
}
impl LpgStore {
    @@LpgStore::discard_uncommitted_versions@@

    @@LpgStore::get_node_at_epoch@@

    @@LpgStore::get_node_versioned@@

    @@LpgStore::get_edge_at_epoch@@

    @@LpgStore::get_edge_versioned@@
}
} // verus!
fn main() {}
'''


def build(repo):
    u = Unit('mvcc', ['C01', 'C02'], repo, TEMPLATE, features=['allocator_api'])
    keep = {'Clone', 'Copy', 'PartialEq', 'Eq'}
    u.item(ID, 'struct', 'EpochId').D1(keep_derive=keep)
    u.item(ID, 'struct', 'TxId').D1(keep_derive=keep)
    u.trust('assume_specification <TxId as PartialEq>::eq', 'derived PartialEq on a u64 newtype is structural equality')
    u.trust('assume_specification VecDeque::retain', 'std: retain keeps, in order, exactly the elements the predicate accepts')
    u.trust('assume_specification VecDeque::is_empty', 'std: is_empty() == (len() == 0); vstd specifies len but not is_empty')
    f = u.method(ID, 'EpochId', 'new').D1().ret('r')
    f.ensures('field', 'r.0 == id')
    f = u.method(ID, 'EpochId', 'as_u64').D1().ret('r')
    f.ensures('field', 'r == self.0')
    f = u.method(ID, 'EpochId', 'is_visible_at').D1().ret('r').props('C01')
    f.ensures('le', 'r == (self.0 <= viewing_epoch.0)')
    f = u.method(ID, 'TxId', 'new').D1().ret('r')
    f.ensures('field', 'r.0 == id')
    f = u.method(ID, 'TxId', 'as_u64').D1().ret('r')
    f.ensures('field', 'r == self.0')

    for n in ('NodeId', 'EdgeId'):
        u.item(ID, 'struct', n).D1(keep_derive={'Clone', 'Copy', 'PartialEq', 'Eq', 'Hash'})
    for w, why in [('external_body NodeRecord', 'E1: record payloads are opaque'), ('admit axiom_id_keys', 'derived Hash/Eq of the u64 id newtypes are lawful'),
                   ('assume_specification HashMap::get_mut', 'std semantics (as in units TM / RDFSTORE)'),
                   ('external_body map_keys', 'R32/R33: HashMap::keys() lists every key exactly once')]:
        u.trust(w, why)
    u.assume('E1/E3 (store part): LpgStore reduced to `nodes` and `edges` as std HashMaps, write locks dropped: one call is one critical section')
    u.item(MV, 'struct', 'VersionInfo').D1(keep_derive={'Clone', 'Copy'})
    f = u.method(MV, 'VersionInfo', 'new').D1().ret('r')
    f.ensures('fields', 'r.created_epoch == created_epoch && r.created_by == created_by && r.deleted_epoch is None')
    f = u.method(MV, 'VersionInfo', 'mark_deleted').D1()
    f.ensures('frame', 'final(self).deleted_epoch == Some(epoch) && final(self).created_epoch == old(self).created_epoch && final(self).created_by == old(self).created_by')
    f = u.method(MV, 'VersionInfo', 'is_visible_at').D1().ret('r').props('C01')
    f.ensures('vis_at', 'r == vis_at(*self, epoch)')
    f = u.method(MV, 'VersionInfo', 'is_visible_to').D1().ret('r').props('C01')
    f.ensures('vis_to', 'r == vis_to(*self, viewing_epoch, viewing_tx)')

    u.item(MV, 'struct', 'Version').D1(keep_derive=set())
    f = u.method(MV, 'Version', 'new').D1().ret('r')
    f.ensures('fields', 'r.data == data && r.info.created_epoch == created_epoch && r.info.created_by == created_by && r.info.deleted_epoch is None')

    u.item(MV, 'struct', 'VersionChain').D1(keep_derive=set()).V1()
    f = u.method(MV, 'VersionChain', 'new').D1().ret('r')
    f.ensures('empty', 'r.versions@.len() == 0')
    f = u.method(MV, 'VersionChain', 'add_version').D1()
    f.ensures('front', 'final(self).versions@.len() == old(self).versions@.len() + 1 && final(self).versions@[0].data == data'
              ' && final(self).versions@[0].info.created_epoch == created_epoch && final(self).versions@[0].info.created_by == created_by'
              ' && final(self).versions@[0].info.deleted_epoch is None')
    f.ensures('rest_unchanged', 'forall|i: int| 0 <= i < old(self).versions@.len() ==> final(self).versions@[i + 1] == old(self).versions@[i]')
    f = u.method(MV, 'VersionChain', 'version_count').D1().ret('r')
    f.ensures('len', 'r == self.versions@.len()')

    f = u.method(MV, 'VersionChain', 'gc').D1().R3b()
    f.ensures('prefix', 'exists|k: int| 0 <= k <= old(self).versions@.len() && final(self).versions@ == old(self).versions@.take(k)', ['C01'])
    f.ensures('recent_kept', 'forall|i: int| 0 <= i < old(self).versions@.len() && (#[trigger] old(self).versions@[i]).info.created_epoch.0 >= min_epoch.0 ==> i < final(self).versions@.len()', ['C01'])
    f.ensures('first_old_kept', 'forall|i: int| 0 <= i < old(self).versions@.len() && (#[trigger] old(self).versions@[i]).info.created_epoch.0 < min_epoch.0'
              ' && (forall|j: int| 0 <= j < i ==> (#[trigger] old(self).versions@[j]).info.created_epoch.0 >= min_epoch.0) ==> i < final(self).versions@.len()', ['C01'])
    f.before('return;', 'proof { assert(old(self).versions@.take(0) =~= self.versions@); }')
    f.body_end('proof { assert(self.versions@ == old(self).versions@.take(keep_count as int)); }')
    L = f.loop(0).kind('for')
    L.invariants(
        ('frame', 'self.versions@ == old(self).versions@'),
        ('bound', 'keep_count <= i'),
        ('recent', 'forall|a: int| 0 <= a < i && (#[trigger] self.versions@[a]).info.created_epoch.0 >= min_epoch.0 ==> a < keep_count'),
        ('old_flag', 'found_old_visible == (exists|a: int| 0 <= a < i && (#[trigger] self.versions@[a]).info.created_epoch.0 < min_epoch.0)'),
        ('first_old', 'forall|a: int| 0 <= a < i && (#[trigger] self.versions@[a]).info.created_epoch.0 < min_epoch.0'
                      ' && (forall|j: int| 0 <= j < a ==> (#[trigger] self.versions@[j]).info.created_epoch.0 >= min_epoch.0) ==> a < keep_count'),
    )

    # ---- chain search functions: unbounded (rules R11/R12/R13/R10 rewrite the adapter chains to the loops std defines them as) ----
    f = u.method(MV, 'VersionChain', 'visible_at').D1().R11().ret('r').props('C01')
    f.ensures('shows_first_visible', 'shows_at(self.versions@, epoch, r)')
    L = f.loop(0).kind('for')
    L.invariant('none_before', 'forall|j: int| 0 <= j < i__ ==> !vis_at(#[trigger] infos(self.versions@)[j], epoch)')
    L.body_start('proof { lemma_first_at_char(infos(self.versions@), epoch); assert(infos(self.versions@)[i__ as int] == self.versions@[i__ as int].info); }')
    L.after('proof { lemma_first_at_char(infos(self.versions@), epoch); }')

    f = u.method(MV, 'VersionChain', 'visible_to').D1().R11().ret('r').props('C01')
    f.ensures('shows_first_visible', 'shows_to(self.versions@, epoch, tx, r)')
    L = f.loop(0).kind('for')
    L.invariant('none_before', 'forall|j: int| 0 <= j < i__ ==> !vis_to(#[trigger] infos(self.versions@)[j], epoch, tx)')
    L.body_start('proof { lemma_first_vis_char(infos(self.versions@), epoch, tx); assert(infos(self.versions@)[i__ as int] == self.versions@[i__ as int].info); }')
    L.after('proof { lemma_first_vis_char(infos(self.versions@), epoch, tx); }')

    f = u.method(MV, 'VersionChain', 'modified_by').D1().R12().ret('r').props('C01', 'C02')
    f.ensures('exists', 'r == exists|j: int| 0 <= j < self.versions@.len() && (#[trigger] self.versions@[j]).info.created_by == tx')
    f.loop(0).kind('for').invariant('none_before', 'forall|j: int| 0 <= j < i__ ==> (#[trigger] self.versions@[j]).info.created_by != tx')

    f = u.method(MV, 'VersionChain', 'has_conflict').D1().R12().ret('r').props('C01', 'C03')
    f.ensures('exists', 'r == exists|j: int| 0 <= j < self.versions@.len() && (#[trigger] self.versions@[j]).info.created_by != our_tx && self.versions@[j].info.created_epoch.0 > start_epoch.0')
    f.loop(0).kind('for').invariant('none_before', 'forall|j: int| 0 <= j < i__ ==> !((#[trigger] self.versions@[j]).info.created_by != our_tx && self.versions@[j].info.created_epoch.0 > start_epoch.0)')

    f = u.method(MV, 'VersionChain', 'mark_deleted').D1().R13().ret('r').props('C01', 'C02')
    f.ensures('len', 'final(self).versions@.len() == old(self).versions@.len()')
    f.ensures('marks_first_live', '''r ==> exists|k: int| 0 <= k < old(self).versions@.len() && {
                &&& (#[trigger] old(self).versions@[k]).info.deleted_epoch is None
                &&& forall|j: int| 0 <= j < k ==> (#[trigger] old(self).versions@[j]).info.deleted_epoch is Some
                &&& final(self).versions@[k].info.deleted_epoch == Some(delete_epoch)
                &&& final(self).versions@[k].info.created_epoch == old(self).versions@[k].info.created_epoch
                &&& final(self).versions@[k].info.created_by == old(self).versions@[k].info.created_by
                &&& final(self).versions@[k].data == old(self).versions@[k].data
                &&& forall|j: int| 0 <= j < old(self).versions@.len() && j != k ==> final(self).versions@[j] == #[trigger] old(self).versions@[j]
            }''')
    f.ensures('nothing_live', '!r ==> final(self).versions@ == old(self).versions@ && forall|j: int| 0 <= j < old(self).versions@.len() ==> (#[trigger] old(self).versions@[j]).info.deleted_epoch is Some')
    L = f.loop(0).kind('for')
    L.invariants(('frame', 'self.versions@ == old(self).versions@'),
                 ('none_before', 'forall|j: int| 0 <= j < i__ ==> (#[trigger] self.versions@[j]).info.deleted_epoch is Some'))

    f = u.method(MV, 'VersionChain', 'remove_versions_by').D1().props('C02')
    f.R10('retain', '&Version<T>', lambda i: 'ensures /*@mvcc::VersionChain::remove_versions_by::closure#keeps_other_transactions*/ r == (v.info.created_by != tx),')
    f.ensures('whole_view', 'final(self).versions@ == old(self).versions@.filter(not_by::<T>(tx))', ['C02'])
    f.body_end('proof { assert(self.versions@ == old(self).versions@.filter(not_by::<T>(tx))); }')

    # ---- get_mut: copy-on-write -------------------------------------------------------------------------
    f = u.method(MV, 'VersionChain', 'get_mut').D1().R14('visible_idx').ret('r').props('C01', 'C02')
    f.ensures('invisible_changes_nothing', 'first_vis(infos(old(self).versions@), epoch, tx) < 0 ==> r is None && final(self).versions@ == old(self).versions@')
    f.ensures('own_version_in_place', '''first_vis(infos(old(self).versions@), epoch, tx) >= 0 && old(self).versions@[first_vis(infos(old(self).versions@), epoch, tx)].info.created_by == tx ==> {
                let k = first_vis(infos(old(self).versions@), epoch, tx);
                &&& r is Some
                &&& final(self).versions@.len() == old(self).versions@.len()
                &&& final(self).versions@[k].info == old(self).versions@[k].info
                &&& final(self).versions@[k].data == *final(r->0)
                &&& forall|j: int| 0 <= j < old(self).versions@.len() && j != k ==> final(self).versions@[j] == #[trigger] old(self).versions@[j]
            }''')
    f.ensures('foreign_version_copied', '''first_vis(infos(old(self).versions@), epoch, tx) >= 0 && old(self).versions@[first_vis(infos(old(self).versions@), epoch, tx)].info.created_by != tx ==> {
                &&& r is Some
                &&& final(self).versions@.len() == old(self).versions@.len() + 1
                &&& final(self).versions@[0].info.created_epoch == modify_epoch && final(self).versions@[0].info.created_by == tx && final(self).versions@[0].info.deleted_epoch is None
                &&& final(self).versions@[0].data == *final(r->0)
                &&& forall|j: int| 0 <= j < old(self).versions@.len() ==> final(self).versions@[j + 1] == #[trigger] old(self).versions@[j]
            }''')
    L = f.loop(0).kind('for')
    L.invariants(('frame', 'self.versions@ == old(self).versions@'),
                 ('found_is_first', 'match visible_idx__found { None => forall|j: int| 0 <= j < i__ ==> !vis_to(#[trigger] infos(self.versions@)[j], epoch, tx),'
                                    ' Some(k) => k < i__ && vis_to(infos(self.versions@)[k as int], epoch, tx) && forall|j: int| 0 <= j < k ==> !vis_to(#[trigger] infos(self.versions@)[j], epoch, tx) }'))
    L.body_start('proof { assert(infos(self.versions@)[i__ as int] == self.versions@[i__ as int].info); }')
    L.after('proof { lemma_first_vis_char(infos(self.versions@), epoch, tx); }')
    # ---- store-level rollback ----
    f = u.method(MV, 'VersionChain', 'is_empty').D1().ret('r')
    f.ensures('empty', 'r == (self.versions@.len() == 0)')
    f = u.method(ST, 'LpgStore', 'discard_uncommitted_versions').D1().props('C02')
    f.sub('E3', 'pub fn discard_uncommitted_versions(&self,', 'pub fn discard_uncommitted_versions(&mut self,')
    f.resub('E3', r'[ \t]*let mut (nodes|edges) = self\.\1\.write\(\);\n', '', count=2)
    f.resub('E3', r'(?<![\.\w])(nodes|edges)\.', r'self.\1.')        # every use of the lock guard goes to the field
    f.R32().R33()
    f.ensures('node_versions_rolled_back', 'rolled_back(old(self).nodes@, final(self).nodes@, tx_id)', ['C02'])
    f.ensures('edge_versions_rolled_back', 'rolled_back(old(self).edges@, final(self).edges@, tx_id)', ['C02'])
    f.body_start('proof { axiom_id_keys(); }\nlet ghost N0 = self.nodes@; let ghost E0 = self.edges@;')
    for w, why in [('external_body EdgeRest', 'E1: flags / property arena fields of EdgeRecord'), ('external_body EdgeRecord::is_deleted', 'E1: the flag test (EdgeFlags::contains) as an uninterpreted predicate of the record'),
                   ('external_body ArcStr', 'E1: interned string'), ('external_body ArcStr::clone', 'std: clone returns an equal value'), ('external_body PropertyStorage', 'E1'), ('external_body PropertyMap', 'E1'),
                   ('external_body collect_props', 'E1: `self.edge_properties.get_all(id).into_iter().collect()` - the (single-version) property side table, not constrained'),
                   ('external_body Edge::new', 'E1: plain constructor')]:
        u.trust(w, why)
    for name, spec, k in (('get_edge_at_epoch', 'first_at(infos(self.edges@[id].versions@), epoch)', 'epoch'), ('get_edge_versioned', 'first_vis(infos(self.edges@[id].versions@), epoch, tx_id)', 'epoch, tx_id')):
        g = u.method(ST, 'LpgStore', name).D1().ret('r').props('C01')
        g.resub('E3', r'[ \t]*let edges = self\.edges\.read\(\);\n', '')
        g.resub('E3', r'(?<![\.\w])edges\.get\(', 'self.edges.get(')
        g.resub('E3', r'[ \t]*let id_to_type = self\.id_to_edge_type\.read\(\);\n', '')
        g.resub('E3', r'(?<![\.\w])id_to_type\.get\(', 'self.id_to_edge_type.get(')
        g.resub('E1', r'self\.edge_properties\.get_all\(id\)\.into_iter\(\)\.collect\(\)', 'collect_props(&self.edge_properties, id)')
        g.ensures('shows_exactly_what_the_reader_may_see', 'edge_seen(self.edges@, self.id_to_edge_type@, id, if self.edges@.contains_key(id) { %s } else { -1 }, r)' % spec)
        g.body_start('proof { axiom_id_keys(); }')
        g.after('let record = chain.visible_', 'proof { %s; assert(*chain == self.edges@[id]); }' % ('lemma_first_at_char(infos(chain.versions@), epoch)' if name == 'get_edge_at_epoch' else 'lemma_first_vis_char(infos(chain.versions@), epoch, tx_id)'))
    u.trust('external_body NodeRecord::is_deleted', 'E1: the flag test as an uninterpreted predicate of the record'); u.trust('external_body collect_node_props', 'E1: the (single-version) property side table, not constrained')
    u.trust('external_body Node::new', 'E1: plain constructor')
    for name, spec in (('get_node_at_epoch', 'first_at(infos(self.nodes@[id].versions@), epoch)'), ('get_node_versioned', 'first_vis(infos(self.nodes@[id].versions@), epoch, tx_id)')):
        g = u.method(ST, 'LpgStore', name).D1().R1().ret('r').props('C01')
        g.resub('E3', r'[ \t]*let nodes = self\.nodes\.read\(\);\n', '')
        g.resub('E3', r'(?<![\.\w])nodes\.get\(', 'self.nodes.get(')
        g.resub('E3', r'[ \t]*let id_to_label = self\.id_to_label\.read\(\);\n', '')
        g.resub('E3', r'[ \t]*let node_labels = self\.node_labels\.read\(\);\n', '')
        g.resub('E3', r'(?<![\.\w])node_labels\.get\(', 'self.node_labels.get(')
        g.resub('E3', r'(?<![\.\w])id_to_label\.get\(', 'self.id_to_label.get(')
        g.resub('R2', r'in label_ids \{', 'in label_ids.iter() {')
        g.resub('E1', r'self\.node_properties\.get_all\(id\)\.into_iter\(\)\.collect\(\)', 'collect_node_props(&self.node_properties, id)')
        g.ensures('shows_exactly_what_the_reader_may_see', 'node_seen(self.nodes@, id, if self.nodes@.contains_key(id) { %s } else { -1 }, r)' % spec)
        g.body_start('proof { axiom_id_keys(); }')
        g.after('let record = chain.visible_', 'proof { %s; assert(*chain == self.nodes@[id]); }' % ('lemma_first_at_char(infos(chain.versions@), epoch)' if name == 'get_node_at_epoch' else 'lemma_first_vis_char(infos(chain.versions@), epoch, tx_id)'))
        g.loop(0).kind('for').invariant('id_kept', 'node.id == id')
    def loops(base, keys, rkeys, M, M0, T, KT, i, j):
        L = f.loop('in 0..%s.len()' % keys).kind('for').props('C02')
        L.invariants(('keys', 'obeys_key_model::<%s>() && %s@.no_duplicates() && (forall|k: %s| #[trigger] %s@.contains(k) <==> %s.contains_key(k))' % (KT, keys, KT, keys, M0)),
                     ('domain', 'forall|id: %s| #![trigger self.%s@.contains_key(id)] self.%s@.contains_key(id) == %s.contains_key(id)' % (KT, M, M, M0)),
                     ('done', 'forall|q: int| 0 <= q < %s ==> self.%s@[#[trigger] %s@[q]].versions@ == %s[%s@[q]].versions@.filter(not_by::<%s>(tx_id))' % (i, M, keys, M0, keys, T)),
                     ('todo', 'forall|q: int| %s <= q < %s@.len() ==> self.%s@[#[trigger] %s@[q]] == %s[%s@[q]]' % (i, keys, M, keys, M0, keys)),
                     ('other_map', OTHER[M]))
        L.body_start('let ghost pre = self.%s@;\nproof { assert(%s@.contains(%s@[%s as int])); }' % (M, keys, keys, i))
        L.body_end('''proof {
    let post = self.%(M)s@;
    lemma_get_mut_frame(pre, post, k__);
    assert(post[k__].versions@ == pre[k__].versions@.filter(not_by::<%(T)s>(tx_id)));
    assert(pre[k__] == %(M0)s[k__]);
    assert forall|q: int| 0 <= q < %(keys)s@.len() && q != %(i)s implies %(keys)s@[q] != k__ && post[#[trigger] %(keys)s@[q]] == pre[%(keys)s@[q]] by { assert(%(keys)s@.contains(%(keys)s@[q])); }
}''' % dict(M=M, T=T, M0=M0, keys=keys, i=i))
        L.after('''proof {
    assert forall|id: %(KT)s| %(M0)s.contains_key(id) implies self.%(M)s@[id].versions@ == %(M0)s[id].versions@.filter(not_by::<%(T)s>(tx_id)) by {
        assert(%(keys)s@.contains(id));
        let q = choose|q: int| 0 <= q < %(keys)s@.len() && %(keys)s@[q] == id;
        assert(self.%(M)s@[%(keys)s@[q]].versions@ == %(M0)s[%(keys)s@[q]].versions@.filter(not_by::<%(T)s>(tx_id)));
    }
}''' % dict(M=M, T=T, M0=M0, keys=keys, KT=KT, mid='NM' if M == 'nodes' else 'EM'))
        mid = 'NM' if M == 'nodes' else 'EM'
        R = f.loop('in 0..%s.len()' % rkeys).kind('for').props('C02')
        R.invariants(('keys', 'obeys_key_model::<%s>() && %s@.no_duplicates() && (forall|k: %s| #[trigger] %s@.contains(k) <==> %s.contains_key(k))' % (KT, rkeys, KT, rkeys, mid)),
                     ('kept_or_dropped', 'forall|id: %s| #![trigger self.%s@.contains_key(id)] (self.%s@.contains_key(id) ==> %s.contains_key(id) && self.%s@[id] == %s[id])' % (KT, M, M, mid, M, mid)),
                     ('visited', 'forall|q: int| 0 <= q < %s ==> (self.%s@.contains_key(#[trigger] %s@[q]) == (%s[%s@[q]].versions@.len() > 0))' % (j, M, rkeys, mid, rkeys)),
                     ('unvisited', 'forall|q: int| %s <= q < %s@.len() ==> self.%s@.contains_key(#[trigger] %s@[q])' % (j, rkeys, M, rkeys)),
                     ('other_map', OTHER[M]),
                     ('mid', 'forall|id: %s| #![trigger %s.contains_key(id)] (%s.contains_key(id) == %s.contains_key(id)) && (%s.contains_key(id) ==> %s[id].versions@ == %s[id].versions@.filter(not_by::<%s>(tx_id)))' % (KT, mid, mid, M0, M0, mid, M0, T)))
        R.before('let ghost %s = self.%s@;\nproof { assert forall|q: int| 0 <= q < %s@.len() implies self.%s@.contains_key(#[trigger] %s@[q]) by { assert(%s@.contains(%s@[q])); } }' % (mid, M, rkeys, M, rkeys, rkeys, rkeys))
        R.body_start('let ghost pre = self.%s@;\nproof { assert(%s@.contains(%s@[%s as int])); }' % (M, rkeys, rkeys, j))
        R.body_end('''proof {
    assert forall|q: int| 0 <= q < %(rkeys)s@.len() && q != %(j)s implies %(rkeys)s@[q] != k__ by { }
}''' % dict(rkeys=rkeys, j=j))
        R.after('''proof {
    assert forall|id: %(KT)s| %(mid)s.contains_key(id) implies (self.%(M)s@.contains_key(id) == (%(mid)s[id].versions@.len() > 0)) by {
        assert(%(rkeys)s@.contains(id));
        let q = choose|q: int| 0 <= q < %(rkeys)s@.len() && %(rkeys)s@[q] == id;
        assert(self.%(M)s@.contains_key(%(rkeys)s@[q]) == (%(mid)s[%(rkeys)s@[q]].versions@.len() > 0));
    }
    assert forall|id: %(KT)s| #![trigger self.%(M)s@.contains_key(id)] #![trigger %(M0)s.contains_key(id)]
        (self.%(M)s@.contains_key(id) == (%(M0)s.contains_key(id) && %(M0)s[id].versions@.filter(not_by::<%(T)s>(tx_id)).len() > 0))
        && (self.%(M)s@.contains_key(id) ==> self.%(M)s@[id].versions@ == %(M0)s[id].versions@.filter(not_by::<%(T)s>(tx_id))) by {
        if %(M0)s.contains_key(id) { assert(%(mid)s.contains_key(id)); assert(%(mid)s[id].versions@ == %(M0)s[id].versions@.filter(not_by::<%(T)s>(tx_id))); }
        if self.%(M)s@.contains_key(id) { assert(%(mid)s.contains_key(id) && self.%(M)s@[id] == %(mid)s[id]); }
    }
    assert(rolled_back(%(M0)s, self.%(M)s@, tx_id));
}''' % dict(M=M, M0=M0, KT=KT, mid=mid, rkeys=rkeys, T=T))
    # the two blocks (nodes, edges) may come in either order: loop ordinals follow the source
    INFO = {'nodes': ('N0', 'NodeRecord', 'NodeId'), 'edges': ('E0', 'EdgeRecord', 'EdgeId')}
    order = sorted(INFO, key=lambda m: f.text.find('map_keys(&self.%s)' % m))
    first, second = order
    OTHER = {first: 'self.%s@ == %s' % (second, INFO[second][0]), second: 'rolled_back(%s, self.%s@, tx_id)' % (INFO[first][0], first)}
    loops(0, 'keys__1', 'rkeys__1', first, INFO[first][0], INFO[first][1], INFO[first][2], 'i__1', 'j__1')
    loops(2, 'keys__2', 'rkeys__2', second, INFO[second][0], INFO[second][1], INFO[second][2], 'i__2', 'j__2')
    u.not_covered += [
                      'tiered-storage VersionIndex (feature off in the default build)']
    u.assume('A1 (stamping discipline, NOT checked): callers stamp a version with an epoch greater than the start epoch of every concurrently running reader until the writer commits; '
             'session.rs / LpgStore sit behind locks + hash maps and are outside both verifiers. Reading them shows the engine stamps in-transaction writes with the START epoch and never restamps, '
             'so the kernel proof does not establish C01 end to end.')
    return u
