"""Unit RLE (C15): RunLengthEncoding::{encode, decode, get}, Run::new, RunLengthIterator::next."""
from vlib import Unit

SRC = 'crates/grafeo-core/src/storage/runlength.rs'

TEMPLATE = r'''
use vstd::prelude::*;
verus! {

@@Run@@

impl<T> Run<T> {
    @@Run::new@@
}

@@RunLengthEncoding@@

// ---- specification (ghost) -----------------------------------------------------------------
pub open spec fn rep(v: u64, n: nat) -> Seq<u64> { Seq::new(n, |i: int| v) }

/// The sequence a list of runs stands for.
pub open spec fn expand(runs: Seq<Run<u64>>) -> Seq<u64>
    decreases runs.len()
{
    if runs.len() == 0 { Seq::empty() }
    else { expand(runs.drop_last()) + rep(runs.last().value, runs.last().length as nat) }
}

pub open spec fn total_len(runs: Seq<Run<u64>>) -> nat
    decreases runs.len()
{
    if runs.len() == 0 { 0 } else { total_len(runs.drop_last()) + runs.last().length as nat }
}

proof fn lemma_expand_push(runs: Seq<Run<u64>>, r: Run<u64>)
    ensures expand(runs.push(r)) == expand(runs) + rep(r.value, r.length as nat),
            total_len(runs.push(r)) == total_len(runs) + r.length as nat,
{
    assert(runs.push(r).drop_last() =~= runs);
}

proof fn lemma_expand_len(runs: Seq<Run<u64>>)
    ensures expand(runs).len() == total_len(runs)
    decreases runs.len()
{
    if runs.len() > 0 { lemma_expand_len(runs.drop_last()); }
}

proof fn lemma_expand_at(runs: Seq<Run<u64>>, k: int, idx: int)
    requires 0 <= k < runs.len(), total_len(runs.take(k)) <= idx < total_len(runs.take(k)) + runs[k].length,
    ensures idx < expand(runs).len(), expand(runs)[idx] == runs[k].value,
    decreases runs.len()
{
    lemma_expand_len(runs.drop_last());
    lemma_expand_len(runs);
    if k == runs.len() - 1 {
        assert(runs.take(k) =~= runs.drop_last());
    } else {
        assert(runs.drop_last().take(k) =~= runs.take(k));
        lemma_expand_at(runs.drop_last(), k, idx);
    }
}

proof fn lemma_total_mono(runs: Seq<Run<u64>>, k: int)
    requires 0 <= k <= runs.len()
    ensures total_len(runs.take(k)) <= total_len(runs)
    decreases runs.len() - k
{
    if k < runs.len() {
        lemma_total_mono(runs, k + 1);
        assert(runs.take(k + 1).drop_last() =~= runs.take(k));
    } else {
        assert(runs.take(k) =~= runs);
    }
}

impl RunLengthEncoding {
    /// Representation invariant established by `encode`: the cached count is the decoded length.
    pub open spec fn wf(&self) -> bool { self.total_count as nat == total_len(self.runs@) }

    @@RunLengthEncoding::encode@@

    @@RunLengthEncoding::decode@@

    @@RunLengthEncoding::get@@
}

@@RunLengthIterator@@

impl<'a> RunLengthIterator<'a> {
    /// how many decoded values have been yielded so far
    pub open spec fn pos(&self) -> nat { total_len(self.runs@.take(self.run_index as int)) + self.within_run as nat }
    pub open spec fn wf(&self) -> bool {
        self.run_index <= self.runs@.len()
        && (self.run_index < self.runs@.len() ==> self.within_run <= self.runs@[self.run_index as int].length)
        && (self.run_index == self.runs@.len() ==> self.within_run == 0)
        && total_len(self.runs@) <= u64::MAX
    }

    @@RunLengthIterator::next@@
}

// ---- signed wrapper: zig-zag through the same encoder (bodies of the two bit tricks proved inverse by Kani, assumed here) ----
pub uninterp spec fn zz(v: i64) -> u64;
pub uninterp spec fn unzz(u: u64) -> i64;
#[verifier::external_body]
pub proof fn axiom_zigzag_inverse() ensures forall|v: i64| unzz(#[trigger] zz(v)) == v { }
@@zigzag_encode@@
@@zigzag_decode@@
@@SignedRunLengthEncoding@@
impl SignedRunLengthEncoding {
    @@SignedRunLengthEncoding::encode@@
    @@SignedRunLengthEncoding::decode@@
}
fn roundtrip_signed_witness(values: &[i64]) -> (out: Vec<i64>)
    ensures out@ == values@
{
    let e = SignedRunLengthEncoding::encode(values);
    let d = e.decode();
    proof { axiom_zigzag_inverse(); assert(d@ =~= values@); }
    d
}

// C15 round trip, derived from the two contracts alone (caller sees only callee contracts).
fn roundtrip_witness(values: &[u64]) -> (out: Vec<u64>)
    ensures out@ == values@
{
    let e = RunLengthEncoding::encode(values);
    e.decode()
}

fn random_access_witness(values: &[u64], i: usize) -> (out: Option<u64>)
    ensures i < values@.len() ==> out == Some(values@[i as int]), i >= values@.len() ==> out is None
{
    let e = RunLengthEncoding::encode(values);
    e.get(i)
}

} // verus!
fn main() {}
'''


def build(repo):
    u = Unit('rle', ['C15'], repo, TEMPLATE)
    u.item(SRC, 'struct', 'Run').D1(keep_derive=set())
    u.item(SRC, 'struct', 'RunLengthEncoding').D1(keep_derive=set()).V1()

    f = u.method(SRC, 'Run', 'new').D1().ret('r')
    f.ensures('fields', 'r.value == value && r.length == length')

    # ---- encode -------------------------------------------------------------------------------
    f = u.method(SRC, 'RunLengthEncoding', 'encode').D1().R1().ret('r')
    f.ensures('expand', 'expand(r.runs@) == values@')
    f.ensures('count', 'r.total_count == values@.len()')
    f.ensures('wf', 'r.wf()')
    L = f.loop(0).kind('for').iter('it')
    L.invariants(
        ('nonempty', 'values@.len() >= 1'),
        ('iter_len', 'it.seq().len() == values@.len() - 1'),
        ('iter_elems', 'forall|k: int| 0 <= k < it.seq().len() ==> *(#[trigger] it.seq()[k]) == values@[k + 1]'),
        ('run_len', '1 <= current_length <= it.index@ + 1 && values@.len() <= usize::MAX'),
        ('prefix', 'expand(runs@) + rep(current_value, current_length as nat) == values@.take(it.index@ + 1)'),
    )
    L.body_start('let ghost pre_runs = runs@; let ghost pre_v = current_value; let ghost pre_l = current_length;')
    L.body_end('''proof {
    let n = it.index@ + 1;
    assert(values@.take(n + 1) =~= values@.take(n).push(values@[n]));
    if value == pre_v {
        assert(rep(pre_v, (pre_l + 1) as nat) =~= rep(pre_v, pre_l as nat).push(pre_v));
        assert(expand(pre_runs) + rep(pre_v, (pre_l + 1) as nat) =~= (expand(pre_runs) + rep(pre_v, pre_l as nat)).push(pre_v));
    } else {
        lemma_expand_push(pre_runs, Run { value: pre_v, length: pre_l });
        assert(rep(value, 1) =~= seq![value]);
        assert(expand(runs@) + rep(value, 1) =~= (expand(pre_runs) + rep(pre_v, pre_l as nat)).push(value));
    }
}''')
    L.after('''proof {
    lemma_expand_push(runs@, Run { value: current_value, length: current_length });
    assert(values@.take(values@.len() as int) =~= values@);
    lemma_expand_len(runs@.push(Run { value: current_value, length: current_length }));
}''')

    # ---- decode -------------------------------------------------------------------------------
    f = u.method(SRC, 'RunLengthEncoding', 'decode').D1().ret('values')
    f.ensures('expand', 'values@ == expand(self.runs@)')
    L0 = f.loop(0).kind('for').iter('it')
    L0.invariant('prefix', 'values@ == expand(self.runs@.take(it.index@ as int))')
    L0.body_start('let ghost pre = values@;')
    L1 = f.loop(1).kind('for').iter('it2')
    L1.invariant('run_prefix', 'values@ == pre + rep(run.value, it2.index@ as nat)')
    L1.body_end('proof { assert(rep(run.value, it2.index@ as nat).push(run.value) =~= rep(run.value, (it2.index@ + 1) as nat)); }')
    L0.body_end('''proof {
    let t = self.runs@.take(it.index@ + 1);
    assert(t.drop_last() =~= self.runs@.take(it.index@ as int));
    assert(t.last() == *run);
}''')
    L0.after('proof { assert(self.runs@.take(self.runs@.len() as int) =~= self.runs@); }')

    # ---- get ----------------------------------------------------------------------------------
    f = u.method(SRC, 'RunLengthEncoding', 'get').D1().ret('r')
    f.requires('wf', 'self.wf()')
    f.ensures('in_range', 'index < self.total_count ==> r == Some(expand(self.runs@)[index as int])')
    f.ensures('out_of_range', 'index >= self.total_count ==> r is None')
    L = f.loop(0).kind('for').iter('it')
    L.invariants(
        ('wf', 'self.wf() && index < self.total_count'),
        ('offset', 'offset as nat == total_len(self.runs@.take(it.index@ as int))'),
        ('not_yet', 'offset <= index'),
    )
    L.body_start('''proof {
    let t = self.runs@.take(it.index@ + 1);
    assert(t.drop_last() =~= self.runs@.take(it.index@ as int));
    assert(t.last() == *run);
    lemma_total_mono(self.runs@, it.index@ + 1);
    lemma_expand_len(self.runs@.take(it.index@ as int));
    if index < offset + run.length { lemma_expand_at(self.runs@, it.index@ as int, index as int); }
}''')
    L.after('''proof {
    assert(self.runs@.take(self.runs@.len() as int) =~= self.runs@);
}''')

    # ---- SignedRunLengthEncoding (rules R17 / R19) --------------------------------------------------------
    ze = u.free_fn(SRC, 'zigzag_encode').D1().ret('r')
    ze.sig_attr('#[verifier::external_body]')
    ze.ensures('zz', 'r == zz(n)')
    zd = u.free_fn(SRC, 'zigzag_decode').D1().ret('r')
    zd.sig_attr('#[verifier::external_body]')
    zd.ensures('unzz', 'r == unzz(n)')
    u.trust('external_body zigzag_encode', 'signed-shift bit trick; proved inverse to zigzag_decode for all 2^64 inputs by Kani unit codec_kani (runlength::verif_rle::zigzag_*)')
    u.trust('external_body zigzag_decode', 'as above')
    u.trust('external_body axiom_zigzag_inverse', 'the statement Kani proves for the real pair')
    u.item(SRC, 'struct', 'SignedRunLengthEncoding').D1(keep_derive=set()).V1()
    f = u.method(SRC, 'SignedRunLengthEncoding', 'encode').D1().R17('unsigned').ret('r')
    f.ensures('inner', 'expand(r.inner.runs@) == Seq::new(values@.len(), |i: int| zz(values@[i])) && r.inner.wf()')
    L = f.loop(0).kind('for')
    L.invariants(('prefix', 'unsigned@.len() == i__ && forall|k: int| 0 <= k < i__ ==> #[trigger] unsigned@[k] == zz(values@[k])'),)
    L.after('proof { assert(unsigned@ =~= Seq::new(values@.len(), |i: int| zz(values@[i]))); }')
    f = u.method(SRC, 'SignedRunLengthEncoding', 'decode').D1().R19('i64').ret('r')
    f.ensures('unzigzag', 'r@ == Seq::new(expand(self.inner.runs@).len(), |i: int| unzz(expand(self.inner.runs@)[i]))')
    L = f.loop(0).kind('for')
    L.invariants(('src', 'src__@ == expand(self.inner.runs@)'),
                 ('prefix', 'out__@.len() == i__ && forall|k: int| 0 <= k < i__ ==> #[trigger] out__@[k] == unzz(src__@[k])'))
    L.after('proof { assert(out__@ =~= Seq::new(expand(self.inner.runs@).len(), |i: int| unzz(expand(self.inner.runs@)[i]))); }')

    # ---- RunLengthIterator::next (trait method extracted as an inherent method: rule M2) ----------
    u.item(SRC, 'struct', 'RunLengthIterator').D1(keep_derive=set()).V1()
    f = u.method(SRC, 'RunLengthIterator', 'next', trait='Iterator').D1().ret('r')
    f.sub('M2', 'Option<Self::Item>', 'Option<u64>')
    f.requires('wf', 'old(self).wf()')
    f.ensures('wf', 'final(self).wf() && final(self).runs@ == old(self).runs@')
    f.ensures('yields_next', 'old(self).pos() < total_len(old(self).runs@) ==> r == Some(expand(old(self).runs@)[old(self).pos() as int]) && final(self).pos() == old(self).pos() + 1')
    f.ensures('exhausted', 'old(self).pos() >= total_len(old(self).runs@) ==> r is None')
    L = f.loop(0).kind('while')
    L.invariants(
        ('wf', 'self.wf() && self.runs@ == old(self).runs@'),
        ('pos', 'self.pos() == old(self).pos()'),
    )
    L.decreases('self.runs@.len() - self.run_index')
    L.body_start('''proof {
    let k = self.run_index as int;
    let t = self.runs@.take(k + 1);
    assert(t.drop_last() =~= self.runs@.take(k));
    assert(t.last() == self.runs@[k]);
    lemma_total_mono(self.runs@, k + 1);
    if self.within_run < self.runs@[k].length { lemma_expand_at(self.runs@, k, self.pos() as int); lemma_expand_len(self.runs@); }
}''')
    L.after('''proof {
    assert(self.runs@.take(self.runs@.len() as int) =~= self.runs@);
}''')
    u.not_covered += ['RunLengthEncoding::{from_runs (iterator sum), to_bytes, from_bytes (io::Cursor)}', 
                      'RunLengthIterator::size_hint', 'RunLengthAnalyzer (f64)']
    return u
