#!/usr/bin/env python3
"""rsx: token-level locator/extractor for Rust items.

It never parses expressions.  It knows strings, raw strings, char literals, lifetimes, line and
(nested) block comments, and brace/paren matching on code characters only.  Items are copied
byte for byte; every rewrite rule lives in vlib.py and is an exact-pattern rule that raises
LostAnchor when the source no longer has the expected shape.
"""
import re


class LostAnchor(Exception):
    """The source no longer has the shape an extraction or splice step relies on (=> UNDECIDED, exit 2)."""


def scan(src):
    """Return a list of booleans: True where the character is code (not comment/string/char literal)."""
    n = len(src)
    code = [True] * n
    i = 0
    while i < n:
        c = src[i]
        if c == '/' and src.startswith('//', i):
            j = src.find('\n', i)
            j = n if j < 0 else j
            for k in range(i, j):
                code[k] = False
            i = j
            continue
        if c == '/' and src.startswith('/*', i):
            depth = 1
            j = i + 2
            while j < n and depth:
                if src.startswith('/*', j):
                    depth += 1
                    j += 2
                elif src.startswith('*/', j):
                    depth -= 1
                    j += 2
                else:
                    j += 1
            for k in range(i, j):
                code[k] = False
            i = j
            continue
        prev_ident = i > 0 and (src[i - 1].isalnum() or src[i - 1] == '_')
        if c == '"' or (not prev_ident and c == 'r' and re.match(r'r#*"', src[i:i + 8])) \
                or (not prev_ident and c == 'b' and re.match(r'br?#*"', src[i:i + 9])):
            i0 = i
            if c == 'b':
                i += 1
                c = src[i]
            if c == 'r':
                m = re.match(r'r(#*)"', src[i:])
                hashes = m.group(1)
                j = src.find('"' + hashes, i + len(m.group(0)))
                j = n if j < 0 else j + 1 + len(hashes)
            else:
                j = i + 1
                while j < n and src[j] != '"':
                    j += 2 if src[j] == '\\' else 1
                j += 1
            for k in range(i0, min(j, n)):
                code[k] = False
            i = j
            continue
        if c == "'":
            m = re.match(r"'(\\(?:x[0-9a-fA-F]{2}|u\{[0-9a-fA-F_]+\}|.)|[^\\'])'", src[i:i + 14])
            if m:
                for k in range(i, i + len(m.group(0))):
                    code[k] = False
                i += len(m.group(0))
                continue
        i += 1
    return code


def match_close(src, code, open_idx):
    """Index of the bracket closing the one at open_idx ({, ( or [)."""
    o = src[open_idx]
    c = {'{': '}', '(': ')', '[': ']'}[o]
    depth = 0
    for i in range(open_idx, len(src)):
        if not code[i]:
            continue
        if src[i] == o:
            depth += 1
        elif src[i] == c:
            depth -= 1
            if depth == 0:
                return i
    raise LostAnchor('unbalanced %s at %d' % (o, open_idx))


def body_open(src, code, start, end=None):
    """First `{` (or `;`) at paren/bracket depth 0 at or after start. Returns (index, char)."""
    end = len(src) if end is None else end
    par = 0
    i = start
    while i < end:
        if code[i]:
            ch = src[i]
            if ch in '([':
                par += 1
            elif ch in ')]':
                par -= 1
            elif ch == '{' and par == 0:
                return i, '{'
            elif ch == ';' and par == 0:
                return i, ';'
        i += 1
    raise LostAnchor('no body after %d' % start)


def attr_start(src, idx):
    """Walk back from the line holding idx over preceding attribute / doc-comment lines."""
    cur = src.rfind('\n', 0, idx) + 1
    while cur > 0:
        prev_end = cur - 1
        prev_start = src.rfind('\n', 0, prev_end) + 1
        line = src[prev_start:prev_end].strip()
        if line.startswith('#[') or line.startswith('///') or line.startswith('//!'):
            cur = prev_start
        else:
            break
    return cur


FN_HDR = r'(?m)^[ \t]*(?:pub(?:\([a-z: ]+\))?\s+)?(?:const\s+)?(?:unsafe\s+)?fn\s+%s\b'


class Source:
    def __init__(self, path, text=None):
        self.path = path
        self.src = open(path).read() if text is None else text
        self.code = scan(self.src)

    def line_of(self, idx):
        return self.src.count('\n', 0, idx) + 1

    # ---- generic block search -------------------------------------------------------------
    def _find(self, header_re, start=0, end=None, nth=0):
        end = len(self.src) if end is None else end
        seen = 0
        for m in re.finditer(header_re, self.src[start:end]):
            s = start + m.start()
            # the match may start with whitespace; test the first non-space char
            s_code = s
            while s_code < end and self.src[s_code] in ' \t\n':
                s_code += 1
            if not self.code[s_code]:
                continue
            if seen < nth:
                seen += 1
                continue
            i, ch = body_open(self.src, self.code, start + m.end(), end)
            if ch == ';':
                return s, None, i
            return s, i, match_close(self.src, self.code, i)
        raise LostAnchor('lost anchor: %s in %s' % (header_re, self.path))

    def _slice(self, s, c):
        a = attr_start(self.src, s)
        return self.src[a:c + 1], self.line_of(a)

    # ---- items ----------------------------------------------------------------------------
    def item(self, kind, name):
        """struct/enum/type/const/trait item by name -> (text, line)."""
        hdr = r'(?m)^[ \t]*(?:pub(?:\([a-z: ]+\))?\s+)?' + kind + r'\s+' + re.escape(name) + r'\b'
        s, o, c = self._find(hdr)
        return self._slice(s, c)

    def free_fn(self, name):
        s, o, c = self._find(FN_HDR % re.escape(name))
        return self._slice(s, c)

    def impls(self):
        """Yield (open, close, trait_or_None, type_name, header) for every top-level-ish impl block."""
        for m in re.finditer(r'(?m)^[ \t]*(?:unsafe\s+)?impl\b', self.src):
            s = m.start()
            sc = s
            while self.src[sc] in ' \t':
                sc += 1
            if not self.code[sc]:
                continue
            try:
                i, ch = body_open(self.src, self.code, m.end())
            except LostAnchor:
                continue
            if ch != '{':
                continue
            header = self.src[m.end():i]
            h = header
            # strip leading generics <...>
            h = h.lstrip()
            if h.startswith('<'):
                depth = 0
                for k, chh in enumerate(h):
                    if chh == '<':
                        depth += 1
                    elif chh == '>':
                        depth -= 1
                        if depth == 0:
                            h = h[k + 1:]
                            break
            h = h.split(' where ')[0].split('\nwhere')[0].strip()
            mfor = re.search(r'\sfor\s', ' ' + h)
            if mfor:
                trait = (' ' + h)[:mfor.start()].strip()
                ty = (' ' + h)[mfor.end():].strip()
            else:
                trait, ty = None, h
            tyname = re.match(r'[&\s]*(?:mut\s+)?([A-Za-z_][A-Za-z_0-9:]*)', ty)
            tyname = tyname.group(1).split('::')[-1] if tyname else ty
            yield i, match_close(self.src, self.code, i), trait, tyname, header.strip()

    def method(self, ty, name, trait=None):
        """Method `name` of an impl of `ty` (inherent, or of `trait` when given) -> (text, line, impl_header)."""
        for o, c, tr, tyname, header in self.impls():
            if tyname != ty:
                continue
            if trait is None and tr is not None:
                continue
            if trait is not None and (tr is None or re.sub(r'<.*', '', tr).split('::')[-1] != trait):
                continue
            try:
                fs, fo, fc = self._find(FN_HDR % re.escape(name), o, c)
            except LostAnchor:
                continue
            text, line = self._slice(fs, fc)
            return text, line, header
        raise LostAnchor('lost anchor: method %s::%s%s in %s' % (ty, name, ' (trait %s)' % trait if trait else '', self.path))


def strip_comments(text):
    """Remove // line comments (incl. doc comments) and /* */ comments; keep line structure otherwise."""
    code = scan(text)
    res = []
    i = 0
    n = len(text)
    while i < n:
        if not code[i] and text.startswith('//', i):
            j = text.find('\n', i)
            i = n if j < 0 else j
            continue
        if not code[i] and text.startswith('/*', i):
            j = i
            while j < n and not code[j]:
                j += 1
            i = j
            continue
        res.append(text[i])
        i += 1
    lines = [l.rstrip() for l in ''.join(res).split('\n')]
    out = []
    for l in lines:
        if l == '' and out and out[-1] == '':
            continue
        out.append(l)
    return '\n'.join(out)
