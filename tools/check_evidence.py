#!/usr/bin/env python3
"""check_evidence.py: every claimed property has a schema-valid evidence file written by a FULL quick/thorough run (all registered units, obligations > 0)."""
import json, os, sys
HERE = os.path.dirname(os.path.abspath(__file__)); VERIF = os.path.dirname(HERE)
sys.path.insert(0, HERE)
from registry import PROPERTIES
try:
    import jsonschema
    schema = json.load(open('/root/.vp/EVIDENCE.schema.json'))
except Exception:
    jsonschema = None
bad = 0
for p, spec in sorted(PROPERTIES.items()):
    f = os.path.join(VERIF, 'evidence', p + '.json')
    if not os.path.exists(f):
        print(p, 'MISSING'); bad += 1; continue
    e = json.load(open(f))
    if jsonschema:
        try:
            jsonschema.validate(e, schema)
        except Exception as ex:
            print(p, 'SCHEMA', str(ex)[:200]); bad += 1
    cov = e.get('coverage', {})
    units = sorted(set(u.get('unit') for u in cov.get('units', []))) if isinstance(cov.get('units'), list) else None
    exp = len(spec['units'])
    n_units = len(cov.get('units', [])) if isinstance(cov.get('units'), list) else None
    print(p, 'obligations', cov.get('obligations'), 'discharged', cov.get('discharged'), 'units', n_units, '/', exp, 'violations', e.get('violations'))
    if not cov.get('obligations') or (n_units is not None and n_units != exp):
        bad += 1
sys.exit(1 if bad else 0)
