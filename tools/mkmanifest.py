#!/usr/bin/env python3
"""Regenerates MANIFEST.json from tools/registry.py (claimed checks) and tools/not_applicable.json."""
import json
import os
import sys
HERE = os.path.dirname(os.path.abspath(__file__))
VERIF = os.path.dirname(HERE)
sys.path.insert(0, HERE)
from registry import PROPERTIES, NOT_APPLICABLE   # noqa: E402

checks = []
for pid, s in sorted(PROPERTIES.items()):
    checks.append({
        'property_id': pid,
        'quick_cmd': './vc check %s --tier quick' % pid,
        'thorough_cmd': './vc check %s --tier thorough' % pid,
        'evidence_file': 'evidence/%s.json' % pid,
        'replay_cmd_template': './vc replay {path}',
        'engine': s.get('engine', 'vc (Verus 0.2026.09.13 / Kani 0.68 + CBMC 6.11)'),
        'level_claimed': {'category': s['level'], 'text': s['level_text'], 'design_ref': 'DESIGN.md §4 ' + pid},
        'level_note': s['level_note'],
        'technique': s['technique'],
    })
m = {
    'version': 1,
    'setup_cmd': './setup.sh',
    'hooks': {
        'guard': 'kani',
        'enable': 'none needed: contracts are spliced into copies (Verus: functions extracted into one file per unit on every run; Kani: scratch copy of the crate with #[cfg(kani)] items inserted). /repo carries no hook commits.',
        'baseline_off_cmd': 'cd /repo && cargo nextest run --workspace --no-fail-fast --tool-config-file pb:/w/lib/nextest.toml --profile pb --test-threads 8 --offline || (cd /repo && cargo test --workspace --no-fail-fast --offline)',
        'source_commits': [],
        'add_only': True,
    },
    'engines': [
        {'name': 'vc', 'path': 'vc', 'serves_properties': sorted(PROPERTIES), 'kind_free_text': 'contract-based deductive verification driver: tools/rsx.py (extractor), tools/vlib.py (Verus splicer/runner), tools/klib.py (Kani injector/runner), units/*.py (contracts), kani/*.rs (harness modules)'},
    ],
    'checks': checks,
    'notes': 'Contract-based deductive verification of the real code. Exit 2 = UNDECIDED (lost anchor / unsupported construct / rlimit / tool error), never an alarm. Known findings: known_findings.json.',
    'not_applicable': [{'property_id': k, 'reason': v} for k, v in sorted(NOT_APPLICABLE.items()) if k not in PROPERTIES],
}
json.dump(m, open(os.path.join(VERIF, 'MANIFEST.json'), 'w'), indent=1)
print('MANIFEST.json: %d checks, %d not applicable' % (len(checks), len(m['not_applicable'])))
