#!/usr/bin/env python3
"""vlib: Verus units = mechanically extracted real functions + spliced contracts.

A unit module (units/<name>.py) exposes  build(repo) -> Unit.  The Unit renders one Verus file in
which every executable statement comes from /repo's current working tree (copied by rsx, changed only
by the closed list of rewrite rules below, each recorded), and every requires/ensures/invariant/proof
block comes from the unit file.  run_unit() discharges it with Verus, runs the vacuity twin and the
trusted-item scan, and returns a result dict used by the driver for verdicts and evidence.
"""
import difflib
import hashlib
import json
import os
import re
import subprocess
import time

from rsx import LostAnchor, Source, body_open, match_close, scan, strip_comments

VERUS = os.environ.get('VERUS', 'verus')
DERIVE_OK = {'Debug', 'Clone', 'Copy', 'PartialEq', 'Eq', 'Hash', 'Default', 'PartialOrd', 'Ord'}

RULE_DOC = {
    'D1': 'drop comments and attributes/derives no contracted function depends on (#[inline], #[must_use], #[allow], #[repr(transparent)], #[cfg(...)] decided for the default feature set, serde/thiserror derives)',
    'D2': 'debug_assert!(c) -> assert(c): a proof obligation (stronger than dropping it)',
    'D3': 'assert!(c, msg) -> assert(c): a proof obligation (the run-time panic must be unreachable under the contract precondition)',
    'R1': '`for &x in E {` -> `for x__r in E { let x = *x__r;` (definition of a reference pattern)',
    'R2': '`for P in &S {` -> `for P in S.iter() {` for std hash collections (std defines the former as the latter)',
    'R3': '`for (i, &x) in E.iter().enumerate() {` -> `for i in 0..E.len() { let x = E[i];` (std semantics of enumerate over a slice)',
    'R4': 'String-typed message argument of an error constructor -> opaque msg(); the error variant is kept',
    'R5': '`if C { continue; } REST` directly in a for body -> `if !(C) { REST }`; `if C { S; continue; } REST` -> `if C { S; } else { REST }` (definition of continue)',
    'R6': '`if let P = E && C { B }` without else -> `if let P = E { if C { B } }` (definition of a let chain)',
    'R8': '`let v = M.values().filter(|p| C).map(|q| E).min();` -> `let mut v = None; for (_, p) in M.iter() { if C { v = opt_min(v, E) } }` (std: minimum of the filtered, mapped values; opt_min is a verified helper)',
    'R9': '`let v: Vec<T> = M.iter().filter(|(a, b)| BODY).map(|(i, _)| *i).collect();` -> `let mut v = Vec::new(); for (a, b) in M.iter() { if BODY { v.push(*a) } }` (std semantics of filter/map/collect; the closure body is copied verbatim)',
    'R11': 'tail expression `E.iter().find(|v| C).map(|w| R)` -> `for i in 0..E.len() { let v = &E[i]; if C { return Some(R) } } None` (std: first element accepted by the predicate; closure bodies verbatim)',
    'R12': 'tail expression `E.iter().any(|v| C)` -> `for i in 0..E.len() { let v = &E[i]; if C { return true } } false`',
    'R13': '`for x in &mut E {` -> `for i in 0..E.len() { let x = &mut E[i];` (std: iter_mut visits the elements in index order)',
    'R17': '`let v: Vec<T> = E.iter().map(|&x| F).collect();` -> `let mut v = Vec::new(); for i in 0..E.len() { let x = E[i]; v.push(F); }`',
    'R23': '`BUF.extend_from_slice(&E.to_le_bytes());` -> `put_le_u32(&mut BUF, E);` when E is `(.. as u32)`, else `put_le_u64(&mut BUF, E);` - helpers whose body is that statement; contract ASSUMED: BUF grows by le4(E) / le8(E) (uninterpreted little-endian encodings)',
    'R24': '`uN::from_le_bytes(B[A..A+k].try_into().unwrap())` (k = 4 for u32, 8 for u64; the width is checked textually) -> `get_le_uN(B, A)`; contract ASSUMED: requires A + k <= len (so the slice bound becomes a proof obligation), returns unleK(B[A..A+k]); with the ASSUMED axiom unleK(leK(x)) == x, |leK(x)| == k',
    'R25': '`&B[A..]` -> `suffix(B, A)` (requires A <= len; ensures the view is the subrange)',
    'R26': '`io::Error::new(io::ErrorKind::InvalidData, "..")` -> `io_invalid_data()` (opaque io::Error; only Ok/Err is observed)',
    'R30': '`let V = E.iter().map(|r| F).sum();` -> `let mut V: usize = 0; for r in E.iter() { V += F; }` (Iterator::sum over usize: the additions become overflow obligations)',
    'R31': 'std::io::Cursor over a byte slice: `io::Cursor::new(B)` -> `ByteCursor::new(B)`, `u64::from_le_bytes(buf)` (buf: [u8; 8]) -> `le_u64_of(buf)`; ByteCursor::read_exact is ASSUMED to behave as Cursor<&[u8]>::read_exact (8 bytes copied and consumed, or Err with nothing consumed)',
    'R38': '`if let Some(P) = E.iter().position(|k| C) {` -> `let mut pos__N: Option<usize> = None; for i__p in 0..E.len() { if pos__N.is_none() { let k = &E[i__p]; if (C) { pos__N = Some(i__p); } } } if let Some(P) = pos__N {` (std: position returns the first index whose element satisfies C; C verbatim)',
    'R36': '`let (A, B): (Vec<_>, Vec<_>) = X.into_iter().partition(|p| P);` -> `let mut A = Vec::new(); let mut B = Vec::new(); for p__ in X { let keep__ = { let p = &p__; P }; if keep__ { A.push(p__); } else { B.push(p__); } }` (std definition of partition; P verbatim)',
    'R37': '`for V in A.into_iter().chain(B) {` -> `let chained__ = vec_concat(A, B); for V in chained__ {` (std: chain yields all of A, then all of B; vec_concat is a VERIFIED helper: `a.append(&mut b)`)',
    'R35': '`M.entry(K).or_insert_with(F).m(ARGS);` -> `entry_or_insert_with_new(&mut M, K).m(ARGS);` - the entry chain is outlined into a helper (body: `m.entry(k).or_insert_with(F)`) whose contract is ASSUMED: the value under K by mutable reference, freshly built by F if absent, other keys untouched',
    'R34': '`for X in M.values() {` -> `for (k__r, X) in M.iter() {` (std: values() is iter() projected to the value)',
    'R32': '`for X in M.values_mut() {` -> `let keys__N = map_keys(&M); for i__N in 0..keys__N.len() { let k__ = keys__N[i__N]; let X = M.get_mut(&k__).unwrap();` - values_mut visits every entry once; map_keys (body: `m.keys().copied().collect()`) is ASSUMED to list every key exactly once',
    'R33': '`M.retain(|_, X| P);` -> `let rkeys__N = map_keys(&M); for j__N in 0..rkeys__N.len() { let k__ = rkeys__N[j__N]; let keep__ = { let X = M.get(&k__).unwrap(); P }; if !keep__ { M.remove(&k__); } }` (std: retain removes exactly the entries for which the predicate is false; P verbatim, X bound immutably)',
    'R28': '`E.last().is_some_and(|c| P)` -> `match E.last() { Some(c) => P, None => false }` (definition of Option::is_some_and; P verbatim)',
    'R29': '`for P in X.drain(..) {` -> `let drained__ = drain_all(&mut X); for e__ in drained__ { let P = e__;` - drain_all is a helper whose body is `X.drain(..).collect()`; contract ASSUMED (std): it returns the old elements in order and leaves X empty',
    'R22': '`if let Some(&x) = E {` -> `if let Some(x__r) = E { let x = *x__r;` (definition of a reference pattern; Verus has no ref patterns)',
    'M3': '`fn f(mut self, ..)` -> `fn f(self, ..) { let mut self__ = self; ..` with `self` renamed to `self__` in the body (Verus has no `mut self` receivers; contracts still speak about `self`)',
    'R8t': 'tail `M.values().filter(|p| C).map(|q| E).min().unwrap_or_else(|| D)` -> `let mut m__: Option<T> = None; for (k__r, p) in M.iter() { if (C) { let q = p; m__ = opt_min(m__, E); } } match m__ { Some(x__) => x__, None => D }` (same fold as R8; unwrap_or_else spelled as a match)',
    'R20': '`M.entry(K).or_default().push(V);` -> `entry_or_default_push(&mut M, K, V);` - the three chained std calls are outlined into a helper whose body is the same chain; its contract (append V to the bucket of K, creating the bucket if absent; other keys untouched) is ASSUMED (std HashMap entry API), listed under trusted',
    'R21': '`E.iter().filter(|t| P).cloned().collect()` (block tail) -> `{ let src__ = &E; let mut out__: Vec<T> = Vec::new(); for t in src__.iter() { if P { out__.push(t.clone()); } } out__ }` (P verbatim; `t` is `&T` instead of `&&T`, auto-deref makes no difference for method calls)',
    'R19': 'tail `E.into_iter().map(f).collect()` (f a function path) -> `let src = E; let mut out = Vec::new(); for i in 0..src.len() { out.push(f(src[i])); } out`',
    'R18': 'tail `(0..n).map(|i| F).collect()` -> `let mut out = Vec::new(); for i in 0..n { out.push(F); } out`',
    'R16': '`let m = E.iter().copied().max().unwrap_or(d);` -> `let mut o = None; for i in 0..E.len() { o = opt_max(o, E[i]) }; let m = o.unwrap_or(d);` (std: the maximum, None when empty; opt_max is a verified helper)',
    'R15': '`let v: Vec<T> = E.windows(2).map(|w| F).collect();` -> `let mut v = Vec::new(); for i in 1..E.len() { let w = &E[i - 1..i + 1]; v.push(F); }` (std: the adjacent pairs in order; F verbatim)',
    'R14': '`let n = E.iter().position(|v| C)?;` -> loop remembering the first index accepted by C, then `let n = found?;`',
    'R10': 'a closure passed to Vec::retain gets a parameter type, a named bool result and braces (`|t| E` -> `|t: T| -> (r: bool) { E }`) so that requires/ensures can be attached; the body is verbatim',
    'R7': '`x op= e` / method sugar spelled out where Verus lacks the operator form (recorded per site)',
    'E1': 'foreign field/param types replaced by a declared stand-in with an assumed contract (FxHashMap/FxHashSet -> std HashMap/HashSet, opaque ArcStr/Term ...)',
    'E2': 'Atomic{U64,Usize}::{load,store,fetch_add,fetch_sub} on a field -> plain read / write / read-modify-write (single-threaded semantics)',
    'E3': 'parking_lot guard variables removed, guard name replaced by the field; &self -> &mut self where the body writes (one critical section executed atomically)',
    'E4': 'f64 operator application at listed sites -> opaque uninterpreted helper (floats never panic; no claimed obligation talks about float results)',
    'M2': 'trait-impl method extracted as an inherent method (receiver and body unchanged; `Self::Item` spelled out): Verus cannot attach requires to a trait impl',
    'M1': 'method whose body never mentions self extracted as an associated fn of a stand-in struct',
    'V1': 'visibility normalised: private struct fields made `pub` (Verus forbids private fields in public contracts; visibility has no run-time meaning)',
    'X1': 'site-specific exact substitution (listed verbatim in the evidence diff)',
}


# --------------------------------------------------------------------------------------------------
class Piece:
    """An extracted source item (struct/enum/fn).  text is rewritten only through recorded rules."""

    def __init__(self, unit, label, text, path, line, kind='item', header=None):
        self.unit = unit
        self.label = label
        self.path = path
        self.line = line
        self.kind = kind
        self.impl_header = header
        self.orig = strip_comments(_dedent(text))
        self.text = _dedent(text)
        self.rules = []
        self.ops = []          # deferred splice operations
        self.ret_name = None
        self.contract = []     # (kind, name, expr, props)
        self.loop_ops = {}
        self.props_default = None
        self._sig_extra = None

    # ---- rule bookkeeping ----
    def _fired(self, rule, detail=''):
        self.rules.append((rule, detail))

    def D1(self, keep_derive=DERIVE_OK, drop_attrs=()):
        out = []
        for line in strip_comments(self.text).split('\n'):
            t = line.strip()
            if t in ('#[inline]', '#[must_use]', '#[repr(transparent)]', '#[default]', '#[cold]') \
                    or t.startswith('#[allow(') or t.startswith('#[inline(') or t.startswith('#[must_use') \
                    or t.startswith('#[serde(') or t.startswith('#[error(') or t.startswith('#[doc') \
                    or t.startswith('#[non_exhaustive') or any(t.startswith(a) for a in drop_attrs):
                continue
            m = re.match(r'(\s*)#\[derive\((.*)\)\]\s*$', line)
            if m:
                keep = [d.strip() for d in m.group(2).split(',') if d.strip() in keep_derive]
                if keep:
                    out.append('%s#[derive(%s)]' % (m.group(1), ', '.join(keep)))
                continue
            out.append(line)
        new = '\n'.join(out)
        if new != self.text:
            self._fired('D1')
        self.text = new
        return self

    def D3(self):
        """assert!(cond, fmt, args..) -> assert(cond): the panic must be unreachable under the stated precondition."""
        return self.D2(macro_re=r'(?<![\w!])assert!\(', rule='D3')

    def D2(self, macro_re=r'\bdebug_assert!\(', rule='D2'):
        """debug_assert!(cond, fmt, args..) -> assert(cond);   (paren-matched, any line layout)"""
        text = self.text
        n = 0
        while True:
            code = scan(text)
            m = None
            for mm in re.finditer(macro_re, text):
                if code[mm.start()]:
                    m = mm
                    break
            if not m:
                break
            op = m.end() - 1
            cl = match_close(text, code, op)
            depth = 0
            cut = cl
            for k in range(op + 1, cl):
                if not code[k]:
                    continue
                if text[k] in '([{':
                    depth += 1
                elif text[k] in ')]}':
                    depth -= 1
                elif text[k] == ',' and depth == 0:
                    cut = k
                    break
            cond = ' '.join(text[op + 1:cut].split())
            end = cl + 1
            if text[end:end + 1] == ';':
                end += 1
            text = text[:m.start()] + 'assert(%s);' % cond + text[end:]
            n += 1
        if rule == 'D2' and re.search(r'\bdebug_assert', text):
            raise LostAnchor('rule D2: unexpected debug_assert form in %s' % self.label)
        if n:
            self._fired(rule, '%d site(s)' % n)
        self.text = text
        return self

    def D4(self):
        """`tracing::warn!(..);` / info! / debug! / trace! / error! statements are removed: logging has no effect on the values under contract
        (their arguments are Display/Debug renderings; an argument with side effects would be a different macro form and is not matched)."""
        text = self.text
        n = 0
        while True:
            code = scan(text)
            m = None
            for mm in re.finditer(r'\btracing::(?:warn|info|debug|trace|error)!\(', text):
                if code[mm.start()]:
                    m = mm
                    break
            if not m:
                break
            cl = match_close(text, code, m.end() - 1)
            end = cl + 1
            if text[end:end + 1] != ';':
                raise LostAnchor('rule D4: logging macro used as an expression in %s' % self.label)
            ls = _line_start(text, m.start())
            if text[ls:m.start()].strip() == '':
                e2 = text.find('\n', end)
                text = text[:ls] + text[(e2 + 1 if e2 >= 0 else len(text)):]
            else:
                text = text[:m.start()] + text[end + 1:]
            n += 1
        if n:
            self._fired('D4', '%d logging statement(s) dropped' % n)
        self.text = text
        return self

    def V1(self):
        out = []
        n = 0
        for line in self.text.split('\n'):
            m = re.match(r'^(\s+)(?!pub\b)([a-z_][A-Za-z_0-9]*)\s*:\s', line)
            if m and not line.strip().startswith('//'):
                line = m.group(1) + 'pub ' + line[len(m.group(1)):]
                n += 1
            out.append(line)
        if n:
            self._fired('V1', '%d field(s)' % n)
        self.text = '\n'.join(out)
        return self

    def sub(self, rule, old, new, count=1):
        n = self.text.count(old)
        if n == 0 or (count is not None and n != count):
            raise LostAnchor('rule %s in %s: expected %s of %r, found %d' % (rule, self.label, count or '>=1', old, n))
        self.text = self.text.replace(old, new)
        self._fired(rule, '%r -> %r x%d' % (old.strip()[:60], new.strip()[:60], n))
        return self

    def resub(self, rule, pattern, repl, count=None, flags=0):
        new, n = re.subn(pattern, repl, self.text, flags=flags)
        if n == 0 or (count is not None and n != count):
            raise LostAnchor('rule %s in %s: expected %s of /%s/, found %d' % (rule, self.label, count or '>=1', pattern, n))
        self.text = new
        self._fired(rule, '/%s/ x%d' % (pattern[:60], n))
        return self

    def resub_opt(self, rule, pattern, repl, flags=0):
        new, n = re.subn(pattern, repl, self.text, flags=flags)
        if n:
            self.text = new
            self._fired(rule, '/%s/ x%d' % (pattern[:60], n))
        return self

    def unwrap_call(self, rule, callee, count=None):
        """`callee(X)` -> `X` (balanced parentheses; e.g. E3: `RwLock::new(X)` -> `X`)"""
        n = 0
        while True:
            text = self.text
            code = scan(text)
            hit = None
            for m in re.finditer(re.escape(callee) + r'\(', text):
                if code[m.start()]:
                    hit = m
                    break
            if not hit:
                break
            op = hit.end() - 1
            cl = match_close(text, code, op)
            self.text = text[:hit.start()] + text[op + 1:cl].strip() + text[cl + 1:]
            n += 1
        if n == 0 or (count is not None and n != count):
            raise LostAnchor('rule %s in %s: expected %s of `%s(..)`, found %d' % (rule, self.label, count or '>=1', callee, n))
        self._fired(rule, '`%s(X)` -> `X` x%d' % (callee, n))
        return self

    def R1(self):
        return self.resub('R1', r'for &(mut\s+)?(\w+) in ([^\n{]+?) \{',
                          lambda m: 'for %s__r in %s { let %s%s = *%s__r;' % (m.group(2), m.group(3), m.group(1) or '', m.group(2), m.group(2)))

    def R2(self, names):
        pat = r'for ([^\n{]+?) in &(%s) \{' % '|'.join(re.escape(n) for n in names)
        return self.resub('R2', pat, r'for \1 in \2.iter() {')

    def R3(self):
        return self.resub('R3', r'for \((\w+), &(\w+)\) in ([\w\.]+)\.iter\(\)\.enumerate\(\) \{',
                          r'for \1 in 0..\3.len() { let \2 = \3[\1];')

    def R39(self):
        """`for (i, x) in (0..N).step_by(S).enumerate() {` -> `for i in 0..step_count(N, S) { let x = i * S;`: std's StepBy<Range<usize>> is set up with
        ceil(N / S) remaining steps and yields 0, S, 2S, ... (library/core/src/iter/adapters/step_by.rs, SpecRangeSetup); step_count is a VERIFIED helper,
        the multiplication becomes an overflow obligation."""
        return self.resub('R39', r'for \((\w+), (\w+)\) in \(0\.\.([^()\n]+?)\)\.step_by\(([^()\n]+?)\)\.enumerate\(\) \{',
                          r'for \1 in 0..step_count(\3, \4) { let \2 = \1 * (\4);')

    def R3b(self):
        """`for (i, x) in E.iter().enumerate() {` (x bound by reference) -> `for i in 0..E.len() { let x = &E[i];`"""
        return self.resub('R3', r'for \((\w+), (\w+)\) in ([\w\.]+)\.iter\(\)\.enumerate\(\) \{',
                          r'for \1 in 0..\3.len() { let \2 = &\3[\1];')

    # ---- iterator adapter chains over a std map: rewritten to the loop std defines them as (exact shapes only) ----
    def _chain(self, text, code, start):
        """parse `.name(args)` calls from index start; returns list of (name, args_text, end_index)"""
        calls = []
        i = start
        while True:
            m = re.match(r'\s*\.(\w+)\(', text[i:])
            if not m:
                break
            op = i + m.end() - 1
            cl = match_close(text, code, op)
            calls.append((m.group(1), text[op + 1:cl], cl + 1))
            i = cl + 1
        return calls, i

    def R8(self, var, ty=None):
        """`let V = M.values().filter(|p| C).map(|q| E).min();` -> loop keeping the minimum (std: min of the filtered, mapped values)"""
        text = self.text
        code = scan(text)
        m = re.search(r'let %s = ([\w\.]+?)(?=\s*\.values\(\))' % re.escape(var), text)
        if not m:
            raise LostAnchor('rule R8 in %s: `let %s = <map>.values()...` not found' % (self.label, var))
        calls, end = self._chain(text, code, m.end())
        names = [c[0] for c in calls]
        if names[:3] != ['values', 'filter', 'map'] or len(names) != 4 or names[3] not in ('min', 'max') or text[end:end + 1] != ';':
            raise LostAnchor('rule R8 in %s: chain is %s, expected values/filter/map/(min|max)' % (self.label, names))
        fold = 'opt_' + names[3]
        fm = re.match(r'\s*\|(\w+)\|\s*(.*)$', calls[1][1], re.S)
        mm = re.match(r'\s*\|(\w+)\|\s*(.*)$', calls[2][1], re.S)
        if not fm or not mm:
            raise LostAnchor('rule R8 in %s: closure shape' % self.label)
        ind = re.match(r'[ \t]*', text[_line_start(text, m.start()):]).group(0)
        new = ('let mut %s%s = None;\n%sfor (k__r, %s) in %s.iter() {\n%s    if (%s) { let %s = %s; %s = %s(%s, %s); }\n%s}'
               % (var, (': ' + ty) if ty else '', ind, fm.group(1), m.group(1), ind, fm.group(2).strip(), mm.group(1), fm.group(1), var, fold, var, mm.group(2).strip(), ind))
        self.text = text[:m.start()] + new + text[end + 1:]
        self._fired('R8', '%s of filtered/mapped map values -> loop + %s' % (names[3], fold))
        return self

    def R23(self):
        def rep(m):
            e = m.group(2).strip()
            return '%sput_le_%s(&mut %s, %s);' % (m.group(0)[:len(m.group(0)) - len(m.group(0).lstrip())], 'u32' if re.search(r'as u32\)$', e) else 'u64', m.group(1), e)
        return self.resub('R23', r'[ \t]*(\w+)\.extend_from_slice\(&(.+?)\.to_le_bytes\(\)\);', rep)

    def R24(self):
        def rep(m):
            ty, b, lo, hi = m.group(1), m.group(2), m.group(3).strip(), m.group(4).strip()
            k = 4 if ty == 'u32' else 8
            ok = (lo.isdigit() and hi.isdigit() and int(hi) - int(lo) == k) or hi == '%s + %d' % (lo, k)
            if not ok:
                raise LostAnchor('rule R24 in %s: slice %s..%s is not %d bytes wide' % (self.label, lo, hi, k))
            return 'get_le_%s(%s, %s)' % (ty, b, lo)
        return self.resub('R24', r'(u32|u64)::from_le_bytes\((\w+)\[([^\]]+?)\.\.([^\]]+?)\]\.try_into\(\)\.unwrap\(\)\)', rep)

    def R25(self):
        return self.resub('R25', r'&(\w+)\[(\w+)\.\.\]', r'suffix(\1, \2)')

    def R26(self):
        return self.resub('R26', r'io::Error::new\(\s*io::ErrorKind::InvalidData,\s*"[^"]*",?\s*\)', 'io_invalid_data()')

    def R30(self, var):
        text = self.text
        code = scan(text)
        m = re.search(r'let %s = ([\w\.]+?)(?=\s*\.iter\(\))' % re.escape(var), text)
        if not m:
            raise LostAnchor('rule R30 in %s: `let %s = <seq>.iter().map(..).sum()` not found' % (self.label, var))
        calls, end = self._chain(text, code, m.end())
        fm = re.match(r'\s*\|(\w+)\|\s*(.*)$', calls[1][1], re.S) if len(calls) > 1 else None
        if [c[0] for c in calls] != ['iter', 'map', 'sum'] or not fm or text[end:end + 1] != ';':
            raise LostAnchor('rule R30 in %s: chain shape' % self.label)
        ind = re.match(r'[ \t]*', text[_line_start(text, m.start()):]).group(0)
        new = 'let mut %s: usize = 0;\n%sfor %s in %s.iter() {\n%s    %s += %s;\n%s}' % (var, ind, fm.group(1), m.group(1), ind, var, fm.group(2).strip(), ind)
        self.text = text[:m.start()] + new + text[end + 1:]
        self._fired('R30', 'iter().map(f).sum() -> loop with +=')
        return self

    def R31(self):
        self.resub('R31', r'io::Cursor::new\(', 'ByteCursor::new(')
        self.resub('R31', r'u64::from_le_bytes\((\w+)\)', r'le_u64_of(\1)')
        return self

    def R38(self):
        n = [0]
        def rep(m):
            n[0] += 1
            ind, pat, e, k, c = m.groups()
            return ('%slet mut pos__%d: Option<usize> = None;\n%sfor i__p%d in 0..%s.len() { if pos__%d.is_none() { let %s = &%s[i__p%d]; if (%s) { pos__%d = Some(i__p%d); } } }\n%sif let Some(%s) = pos__%d {'
                    % (ind, n[0], ind, n[0], e, n[0], k, e, n[0], c.strip(), n[0], n[0], ind, pat, n[0]))
        return self.resub('R38', r'([ \t]*)if let Some\((\w+)\) = ([\w\.]+)\.iter\(\)\.position\(\|(\w+)\| ([^\n]+?)\) \{', rep)

    def R36(self):
        pat = r'([ \t]*)let \((\w+), (\w+)\): \(Vec<_>, Vec<_>\) = (\w+)\s*\.into_iter\(\)\s*\.partition\(\|(\w+)\|\s*([^;]+?)\);'
        def rep(m):
            ind, a, b, x, p, body = m.groups()
            return ('%slet mut %s = Vec::new(); let mut %s = Vec::new();\n%sfor p__ in %s { let keep__ = { let %s = &p__; %s }; if keep__ { %s.push(p__); } else { %s.push(p__); } }'
                    % (ind, a, b, ind, x, p, body.strip(), a, b))
        return self.resub_opt('R36', pat, rep)

    def R37(self):
        return self.resub_opt('R37', r'([ \t]*)for (\w+) in (\w+)\.into_iter\(\)\.chain\((\w+)\) \{', lambda m: '%slet chained__ = vec_concat(%s, %s);\n%sfor %s in chained__ {' % (m.group(1), m.group(3), m.group(4), m.group(1), m.group(2)))

    def R35(self, ctor):
        return self.resub('R35', r'([\w\.]+)\s*\.entry\((\w+)\)\s*\.or_insert_with\(%s\)\s*\.' % re.escape(ctor), r'entry_or_insert_with_new(&mut \1, \2).')

    def R34(self):
        return self.resub('R34', r'for (\w+) in ([\w\.]+)\.values\(\) \{', r'for (k__r, \1) in \2.iter() {')

    def R32(self):
        n = [0]
        def rep(m):
            n[0] += 1
            i = n[0]
            return ('%slet keys__%d = map_keys(&%s);\n%sfor i__%d in 0..keys__%d.len() { let k__ = keys__%d[i__%d]; let %s = %s.get_mut(&k__).unwrap();'
                    % (m.group(1), i, m.group(3), m.group(1), i, i, i, i, m.group(2), m.group(3)))
        return self.resub('R32', r'([ \t]*)for (\w+) in ([\w\.]+)\.values_mut\(\) \{', rep)

    def R33(self):
        n = [0]
        def rep(m):
            n[0] += 1
            i = n[0]
            ind = m.group(1)
            return ('%slet rkeys__%d = map_keys(&%s);\n%sfor j__%d in 0..rkeys__%d.len() {\n%s    let k__ = rkeys__%d[j__%d];\n%s    let keep__ = { let %s = %s.get(&k__).unwrap(); %s };\n%s    if !keep__ { %s.remove(&k__); }\n%s}'
                    % (ind, i, m.group(2), ind, i, i, ind, i, i, ind, m.group(3), m.group(2), m.group(4).strip(), ind, m.group(2), ind))
        return self.resub('R33', r'([ \t]*)([\w\.]+)\.retain\(\|_, (\w+)\| ([^\n]+?)\);', rep)

    def R28(self):
        return self.resub_opt('R28', r'([\w\.]+)\.last\(\)\.is_some_and\(\|(\w+)\|\s*([^\n]+?)\);', lambda m: 'match %s.last() { Some(%s) => %s, None => false };' % (m.group(1), m.group(2), m.group(3)))

    def R29(self):
        def rep(m):
            ind = m.group(1)
            return '%slet drained__ = drain_all(&mut %s);\n%sfor e__ in drained__ { let %s = e__;' % (ind, m.group(3), ind, m.group(2))
        return self.resub('R29', r'([ \t]*)for (\([^)]*\)|\w+) in ([\w\.]+)\.drain\(\.\.\) \{', rep)

    def R22(self):
        return self.resub('R22', r'if let Some\(&(\w+)\) = ([^\n{]+?) \{', lambda m: 'if let Some(%s__r) = %s { let %s = *%s__r;' % (m.group(1), m.group(2), m.group(1), m.group(1)))

    def M3(self):
        text = self.text
        code = scan(text)
        m = re.search(r'\bfn\s+\w+\s*\(\s*mut self\b', text)
        if not m:
            raise LostAnchor('rule M3 in %s: no `mut self` receiver' % self.label)
        bo, ch = body_open(text, code, m.start())
        bc = match_close(text, code, bo)
        body = re.sub(r'\bself\b', 'self__', text[bo + 1:bc])
        head = text[:bo + 1].replace('mut self', 'self', 1)
        self.text = head + '\n        let mut self__ = self;' + body + text[bc:]
        self._fired('M3', '`mut self` receiver -> local rebinding')
        return self

    def R8t(self, ty):
        """tail `M.values().filter(|p| C).map(|q| E).min().unwrap_or_else(|| D)` -> fold loop + match"""
        try:
            ts, end, recv, calls = self._tail_chain(['values', 'filter', 'map', 'min', 'unwrap_or_else'])
            fold = 'opt_min'
        except LostAnchor:
            ts, end, recv, calls = self._tail_chain(['values', 'filter', 'map', 'max', 'unwrap_or_else'])
            fold = 'opt_max'
        text = self.text
        fm = re.match(r'\s*\|(\w+)\|\s*(.*)$', calls[1][1], re.S)
        mm = re.match(r'\s*\|(\w+)\|\s*(.*)$', calls[2][1], re.S)
        dm = re.match(r'\s*\|\|\s*(.*)$', calls[4][1], re.S)
        if not fm or not mm or not dm:
            raise LostAnchor('rule R8t in %s: closure shape' % self.label)
        ind = re.match(r'[ \t]*', text[_line_start(text, ts):]).group(0)
        new = ('let mut m__: %s = None;\n%sfor (k__r, %s) in %s.iter() {\n%s    if (%s) { let %s = %s; m__ = %s(m__, %s); }\n%s}\n%smatch m__ { Some(x__) => x__, None => %s }'
               % (ty, ind, fm.group(1), recv, ind, fm.group(2).strip(), mm.group(1), fm.group(1), fold, mm.group(2).strip(), ind, ind, dm.group(1).strip()))
        self.text = text[:ts] + new + text[end:]
        self._fired('R8t', 'min of filtered/mapped map values with default (tail) -> loop + opt_min + match')
        return self

    def R9(self, var):
        """`let V: Vec<T> = M.iter().filter(|(a, b)| BODY).map(|(i, _)| *i).collect();` -> loop pushing the keys whose entry passes BODY"""
        text = self.text
        code = scan(text)
        m = re.search(r'let %s: (Vec<[\w:]+>) = ([\w\.]+?)(?=\s*\.iter\(\))' % re.escape(var), text)
        if not m:
            raise LostAnchor('rule R9 in %s: `let %s: Vec<_> = <map>.iter()...` not found' % (self.label, var))
        calls, end = self._chain(text, code, m.end())
        names = [c[0] for c in calls]
        if names != ['iter', 'filter', 'map', 'collect'] or text[end:end + 1] != ';':
            raise LostAnchor('rule R9 in %s: chain is %s, expected iter/filter/map/collect' % (self.label, names))
        fm = re.match(r'\s*\|\((\w+), (\w+)\)\|\s*(.*)$', calls[1][1], re.S)
        mm = re.match(r'\s*\|\((\w+), _\)\|\s*\*(\w+)\s*$', calls[2][1], re.S)
        if not fm or not mm or mm.group(1) != mm.group(2):
            raise LostAnchor('rule R9 in %s: closure shape' % self.label)
        ind = re.match(r'[ \t]*', text[_line_start(text, m.start()):]).group(0)
        new = ('let mut %s: %s = Vec::new();\n%sfor (a__r, b__r) in %s.iter() {\n%s    let %s = &a__r; let %s = &b__r;\n%s    let keep__ = %s;\n%s    if keep__ { %s.push(*a__r); }\n%s}'
               % (var, m.group(1), ind, m.group(2), ind, fm.group(1), fm.group(2), ind, fm.group(3).strip(), ind, var, ind))
        self.text = text[:m.start()] + new + text[end + 1:]
        self._fired('R9', 'filter/map/collect over map entries -> loop + push')
        return self

    def _tail_chain(self, names_expected):
        """the fn's tail expression must be `RECV .a(..) .b(..) ..` with the expected call names; returns (start, end, recv, calls)"""
        text = self.text
        code = scan(text)
        m = re.search(r'\bfn\s+\w+', text)
        bo, ch = body_open(text, code, m.end())
        bc = match_close(text, code, bo)
        ts = tail_start(text, code, bo, bc)
        mm = re.match(r'([\w\.]+?)(?=\s*\.\w+\()', text[ts:])
        if not mm:
            raise LostAnchor('tail expression of %s is not a method chain' % self.label)
        recv_end = ts + mm.end()
        calls, end = self._chain(text, code, recv_end)
        # the receiver regex is lazy: extend it over leading field accesses that were parsed as calls? no - calls only
        names = [c[0] for c in calls]
        if names != names_expected or text[end:bc].strip() != '':
            raise LostAnchor('tail expression of %s is %s, expected %s' % (self.label, names, names_expected))
        return ts, end, mm.group(1), calls

    def R11(self):
        """tail `E.iter().find(|v| C).map(|w| R)` -> `for i in 0..E.len() { let v = &E[i]; if C { let w = v; return Some(R); } } None`"""
        ts, end, recv, calls = self._tail_chain(['iter', 'find', 'map'])
        fm = re.match(r'\s*\|(\w+)\|\s*(.*)$', calls[1][1], re.S)
        mm = re.match(r'\s*\|(\w+)\|\s*(.*)$', calls[2][1], re.S)
        if not fm or not mm:
            raise LostAnchor('rule R11 in %s: closure shape' % self.label)
        ind = re.match(r'[ \t]*', self.text[_line_start(self.text, ts):]).group(0)
        new = ('for i__ in 0..%s.len() {\n%s    let %s = &%s[i__];\n%s    if (%s) { let %s = %s; return Some(%s); }\n%s}\n%sNone'
               % (recv, ind, fm.group(1), recv, ind, fm.group(2).strip(), mm.group(1), fm.group(1), mm.group(2).strip(), ind, ind))
        self.text = self.text[:ts] + new + self.text[end:]
        self._fired('R11', 'iter().find(..).map(..) tail -> index loop with early return')
        return self

    def R12(self):
        """tail `E.iter().any(|v| C)` -> `for i in 0..E.len() { let v = &E[i]; if C { return true; } } false`"""
        ts, end, recv, calls = self._tail_chain(['iter', 'any'])
        fm = re.match(r'\s*\|(\w+)\|\s*(.*)$', calls[1][1], re.S)
        if not fm:
            raise LostAnchor('rule R12 in %s: closure shape' % self.label)
        ind = re.match(r'[ \t]*', self.text[_line_start(self.text, ts):]).group(0)
        new = ('for i__ in 0..%s.len() {\n%s    let %s = &%s[i__];\n%s    if (%s) { return true; }\n%s}\n%sfalse'
               % (recv, ind, fm.group(1), recv, ind, fm.group(2).strip(), ind, ind))
        self.text = self.text[:ts] + new + self.text[end:]
        self._fired('R12', 'iter().any(..) tail -> index loop with early return')
        return self

    def R13(self):
        """`for x in &mut E {` -> `for i in 0..E.len() { let x = &mut E[i];` (std: iter_mut visits the elements in index order)"""
        return self.resub('R13', r'for (\w+) in &mut ([\w\.]+) \{', r'for i__ in 0..\2.len() { let \1 = &mut \2[i__];')

    def R14(self, var):
        """`let N = E.iter().position(|v| C)?;` -> loop remembering the first index accepted by C, then `let N = found?;`
        (C is evaluated on later elements too: it must be side-effect free, which is checked by Verus - it is called in exec code with no &mut)"""
        text = self.text
        code = scan(text)
        m = re.search(r'let %s = ([\w\.\s]+?)(?=\s*\.iter\(\))' % re.escape(var), text)
        if not m:
            raise LostAnchor('rule R14 in %s: `let %s = <seq>.iter().position(..)?` not found' % (self.label, var))
        recv = ''.join(m.group(1).split())
        calls, end = self._chain(text, code, m.end())
        names = [c[0] for c in calls]
        if names != ['iter', 'position'] or text[end:end + 2] != '?;':
            raise LostAnchor('rule R14 in %s: chain is %s, expected iter/position followed by ?;' % (self.label, names))
        fm = re.match(r'\s*\|(\w+)\|\s*(.*)$', calls[1][1], re.S)
        if not fm:
            raise LostAnchor('rule R14 in %s: closure shape' % self.label)
        ind = re.match(r'[ \t]*', text[_line_start(text, m.start()):]).group(0)
        new = ('let mut %s__found: Option<usize> = None;\n%sfor i__ in 0..%s.len() {\n%s    let %s = &%s[i__];\n%s    if %s__found.is_none() && (%s) { %s__found = Some(i__); }\n%s}\n%slet %s = %s__found?;'
               % (var, ind, recv, ind, fm.group(1), recv, ind, var, fm.group(2).strip(), var, ind, ind, var, var))
        self.text = text[:m.start()] + new + text[end + 2:]
        self._fired('R14', 'iter().position(..)? -> loop remembering the first accepted index')
        return self

    def R15(self, var):
        """`let V: Vec<T> = E.windows(2).map(|w| F).collect();` -> `let mut V = Vec::new(); for i in 1..E.len() { let w = &E[i - 1..i + 1]; V.push(F); }`"""
        text = self.text
        code = scan(text)
        m = re.search(r'let %s: (Vec<[\w:]+>) = ([\w\.]+?)(?=\s*\.windows\(2\))' % re.escape(var), text)
        if not m:
            raise LostAnchor('rule R15 in %s: `let %s: Vec<_> = <slice>.windows(2)...` not found' % (self.label, var))
        calls, end = self._chain(text, code, m.end())
        names = [c[0] for c in calls]
        if names != ['windows', 'map', 'collect'] or calls[0][1].strip() != '2' or text[end:end + 1] != ';':
            raise LostAnchor('rule R15 in %s: chain is %s, expected windows(2)/map/collect' % (self.label, names))
        fm = re.match(r'\s*\|(\w+)\|\s*(.*)$', calls[1][1], re.S)
        if not fm:
            raise LostAnchor('rule R15 in %s: closure shape' % self.label)
        ind = re.match(r'[ \t]*', text[_line_start(text, m.start()):]).group(0)
        new = ('let mut %s: %s = Vec::new();\n%sfor i__ in 1..%s.len() {\n%s    let %s = &%s[i__ - 1..i__ + 1];\n%s    %s.push(%s);\n%s}'
               % (var, m.group(1), ind, m.group(2), ind, fm.group(1), m.group(2), ind, var, fm.group(2).strip(), ind))
        self.text = text[:m.start()] + new + text[end + 1:]
        self._fired('R15', 'windows(2).map(..).collect() -> loop over adjacent pairs')
        return self

    def R46(self, var):
        """`let V = E.windows(2).all(|w| C);` -> `let mut V = true; for i__ in 1..E.len() { let w = &E[i__ - 1..i__ + 1]; if !(C) { V = false; } }`
        (std: `all` is the conjunction over the adjacent pairs; it short-circuits, which is unobservable for a pure closure)"""
        text = self.text
        code = scan(text)
        m = re.search(r'let %s = ([\w\.]+?)(?=\s*\.windows\(2\))' % re.escape(var), text)
        if not m:
            raise LostAnchor('rule R46 in %s: `let %s = <slice>.windows(2).all(..)` not found' % (self.label, var))
        calls, end = self._chain(text, code, m.end())
        names = [c[0] for c in calls]
        fm = re.match(r'\s*\|(\w+)\|\s*(.*)$', calls[1][1], re.S) if len(calls) > 1 else None
        if names != ['windows', 'all'] or calls[0][1].strip() != '2' or not fm or text[end:end + 1] != ';':
            raise LostAnchor('rule R46 in %s: chain is %s, expected windows(2)/all' % (self.label, names))
        ind = re.match(r'[ \t]*', text[_line_start(text, m.start()):]).group(0)
        new = ('let mut %s = true;\n%sfor i__ in 1..%s.len() {\n%s    let %s = &%s[i__ - 1..i__ + 1];\n%s    if !(%s) { %s = false; }\n%s}'
               % (var, ind, m.group(1), ind, fm.group(1), m.group(1), ind, fm.group(2).strip(), var, ind))
        self.text = text[:m.start()] + new + text[end + 1:]
        self._fired('R46', 'windows(2).all(p) -> loop over adjacent pairs')
        return self

    def R16(self, var, elem_ty):
        """`let V = E.iter().copied().max().unwrap_or(D);` -> fold keeping the largest element seen (None for an empty E), then `.unwrap_or(D)`"""
        text = self.text
        code = scan(text)
        m = re.search(r'let %s = ([\w\.]+?)(?=\s*\.iter\(\))' % re.escape(var), text)
        if not m:
            raise LostAnchor('rule R16 in %s: `let %s = <slice>.iter().copied().max().unwrap_or(..)` not found' % (self.label, var))
        calls, end = self._chain(text, code, m.end())
        names = [c[0] for c in calls]
        if names != ['iter', 'copied', 'max', 'unwrap_or'] or text[end:end + 1] != ';':
            raise LostAnchor('rule R16 in %s: chain is %s, expected iter/copied/max/unwrap_or' % (self.label, names))
        ind = re.match(r'[ \t]*', text[_line_start(text, m.start()):]).group(0)
        new = ('let mut %s__max: Option<%s> = None;\n%sfor i__ in 0..%s.len() {\n%s    %s__max = opt_max_%s(%s__max, %s[i__]);\n%s}\n%slet %s = %s__max.unwrap_or(%s);'
               % (var, elem_ty, ind, m.group(1), ind, var, elem_ty, var, m.group(1), ind, ind, var, var, calls[3][1].strip()))
        self.text = text[:m.start()] + new + text[end + 1:]
        self._fired('R16', 'iter().copied().max().unwrap_or(d) -> fold loop + unwrap_or(d)')
        return self

    def R17(self, var=None):
        """`let V: Vec<T> = E.iter().map(|&x| F).collect();` -> `let mut V: Vec<T> = Vec::new(); for i in 0..E.len() { let x = E[i]; V.push(F); }`"""
        text = self.text
        code = scan(text)
        m = re.search(r'let (%s): (Vec<[\w:]+>) = ([\w\.]+?)(?=\s*\.iter\(\))' % (re.escape(var) if var else r'\w+'), text)
        if not m:
            raise LostAnchor('rule R17 in %s: `let v: Vec<_> = <seq>.iter().map(|&x| ..).collect()` not found' % self.label)
        calls, end = self._chain(text, code, m.end())
        names = [c[0] for c in calls]
        fm = re.match(r'\s*\|&(\w+)\|\s*(.*)$', calls[1][1], re.S) if len(calls) > 1 else None
        if names != ['iter', 'map', 'collect'] or not fm or text[end:end + 1] != ';':
            raise LostAnchor('rule R17 in %s: chain is %s, expected iter/map(|&x| ..)/collect' % (self.label, names))
        ind = re.match(r'[ \t]*', text[_line_start(text, m.start()):]).group(0)
        new = ('let mut %s: %s = Vec::new();\n%sfor i__ in 0..%s.len() {\n%s    let %s = %s[i__];\n%s    %s.push(%s);\n%s}'
               % (m.group(1), m.group(2), ind, m.group(3), ind, fm.group(1), m.group(3), ind, m.group(1), fm.group(2).strip(), ind))
        self.text = text[:m.start()] + new + text[end + 1:]
        self._fired('R17', 'iter().map(|&x| ..).collect() -> index loop + push')
        return self

    def R18(self, elem_ty):
        """tail `(0..N).map(|i| F).collect()` -> `let mut out: Vec<T> = Vec::new(); for i in 0..N { out.push(F); } out`"""
        text = self.text
        code = scan(text)
        m0 = re.search(r'\bfn\s+\w+', text)
        bo, ch = body_open(text, code, m0.end())
        bc = match_close(text, code, bo)
        ts = tail_start(text, code, bo, bc)
        mm = re.match(r'\(0\.\.([\w\.]+)\)(?=\s*\.map\()', text[ts:])
        if not mm:
            raise LostAnchor('rule R18 in %s: tail is not `(0..N).map(..).collect()`' % self.label)
        calls, end = self._chain(text, code, ts + mm.end())
        names = [c[0] for c in calls]
        fm = re.match(r'\s*\|(\w+)\|\s*(.*)$', calls[0][1], re.S) if calls else None
        if names != ['map', 'collect'] or not fm or text[end:bc].strip() != '':
            raise LostAnchor('rule R18 in %s: chain is %s' % (self.label, names))
        ind = re.match(r'[ \t]*', text[_line_start(text, ts):]).group(0)
        new = ('let mut out__: Vec<%s> = Vec::new();\n%sfor %s in 0..%s {\n%s    out__.push(%s);\n%s}\n%sout__'
               % (elem_ty, ind, fm.group(1), mm.group(1), ind, fm.group(2).strip(), ind, ind))
        self.text = text[:ts] + new + text[end:]
        self._fired('R18', '(0..n).map(..).collect() tail -> loop + push')
        return self

    def R20(self):
        """`M.entry(K).or_default().push(V);` -> `entry_or_default_push(<&mut M | M>, K, V);` (all sites)"""
        n = 0
        while True:
            text = self.text
            code = scan(text)
            hit = None
            for m in re.finditer(r'(?<![\w\.])([\w\.]+?)(?=\s*\.entry\()', text):
                if not code[m.start()]:
                    continue
                calls, end = self._chain(text, code, m.end())
                if [c[0] for c in calls] == ['entry', 'or_default', 'push'] and calls[1][1].strip() == '' and text[end:end + 1] == ';':
                    hit = (m, calls, end)
                    break
            if not hit:
                break
            m, calls, end = hit
            recv = m.group(1)
            arg0 = '&mut ' + recv if recv.startswith('self.') else recv
            self.text = text[:m.start()] + 'entry_or_default_push(%s, %s, %s)' % (arg0, calls[0][1].strip(), calls[2][1].strip()) + text[end:]
            n += 1
        if not n:
            raise LostAnchor('rule R20 in %s: no `.entry(K).or_default().push(V);` chain' % self.label)
        self._fired('R20', '%d site(s)' % n)
        return self

    def R21(self, elem_ty):
        """`E.iter().filter(|t| P).cloned().collect()` -> block with loop + push (all sites; E is a path or a single call)"""
        n = 0
        while True:
            text = self.text
            code = scan(text)
            hit = None
            for m in re.finditer(r'(?<![\w\.])((?:[\w:]+\([^()]*\))|(?:[\w\.]+?))(?=\s*\.iter\(\)\s*\.filter\()', text):
                if not code[m.start()]:
                    continue
                calls, end = self._chain(text, code, m.end())
                if [c[0] for c in calls] == ['iter', 'filter', 'cloned', 'collect']:
                    hit = (m, calls, end)
                    break
            if not hit:
                break
            m, calls, end = hit
            fm = re.match(r'\s*\|(\w+)\|\s*(.*)$', calls[1][1], re.S)
            if not fm:
                raise LostAnchor('rule R21 in %s: closure shape' % self.label)
            ind = re.match(r'[ \t]*', text[_line_start(text, m.start()):]).group(0)
            new = ('{\n%s    let src__ = &%s;\n%s    let mut out__: Vec<%s> = Vec::new();\n%s    for %s in src__.iter() {\n%s        if %s { out__.push(%s.clone()); }\n%s    }\n%s    out__\n%s}'
                   % (ind, m.group(1), ind, elem_ty, ind, fm.group(1), ind, fm.group(2).strip(), fm.group(1), ind, ind, ind))
            self.text = text[:m.start()] + new + text[end:]
            n += 1
        if not n:
            raise LostAnchor('rule R21 in %s: no `.iter().filter(|t| P).cloned().collect()` chain' % self.label)
        self._fired('R21', '%d site(s)' % n)
        return self

    def R19(self, elem_ty):
        """tail `E.into_iter().map(F).collect()` (F a function path) -> `let src = E; let mut out = Vec::new(); for i in 0..src.len() { out.push(F(src[i])); } out`"""
        text = self.text
        code = scan(text)
        m0 = re.search(r'\bfn\s+\w+', text)
        bo, ch = body_open(text, code, m0.end())
        bc = match_close(text, code, bo)
        ts = tail_start(text, code, bo, bc)
        k = text.find('.into_iter()', ts)
        if k < 0 or k > bc:
            raise LostAnchor('rule R19 in %s: tail is not `E.into_iter().map(F).collect()`' % self.label)
        recv = text[ts:k].strip()
        calls, end = self._chain(text, code, k)
        names = [c[0] for c in calls]
        if names != ['into_iter', 'map', 'collect'] or not re.match(r'^[\w:]+$', calls[1][1].strip()) or text[end:bc].strip() != '':
            raise LostAnchor('rule R19 in %s: chain is %s' % (self.label, names))
        ind = re.match(r'[ \t]*', text[_line_start(text, ts):]).group(0)
        new = ('let src__ = %s;\n%slet mut out__: Vec<%s> = Vec::new();\n%sfor i__ in 0..src__.len() {\n%s    out__.push(%s(src__[i__]));\n%s}\n%sout__'
               % (recv, ind, elem_ty, ind, ind, calls[1][1].strip(), ind, ind))
        self.text = text[:ts] + new + text[end:]
        self._fired('R19', 'into_iter().map(f).collect() tail -> index loop + push')
        return self

    def R10(self, method, param_ty, annotate, ret_ty='bool'):
        """`.method(|p| BODY)` -> `.method(|p: TY| -> (r: bool) <clauses(i)> { BODY })`: the closure gets a type annotation, a named
        result and braces so that a contract can be attached; BODY is copied verbatim.  annotate(i) returns the clauses for the i-th site."""
        text = self.text
        n = 0
        pos = 0
        while True:
            code = scan(text)
            m = re.compile(r'\.%s\(\|(\w+)\|\s*' % re.escape(method)).search(text, pos)
            if not m:
                break
            if not code[m.start()]:
                pos = m.end()
                continue
            op = text.index('(', m.start())
            cl = match_close(text, code, op)
            body = text[m.end():cl].strip()
            if body.startswith('{') and body.endswith('}') and match_close(body, scan(body), 0) == len(body) - 1:
                body = body[1:-1].strip()
            new = '.%s(|%s: %s| -> (r: %s) %s { %s })' % (method, m.group(1), param_ty, ret_ty, annotate(n), body)
            text = text[:m.start()] + new + text[cl + 1:]
            pos = m.start() + len(new)
            n += 1
        if n == 0:
            raise LostAnchor('rule R10 in %s: no `.%s(|p| ..)` site' % (self.label, method))
        self.text = text
        self._fired('R10', '%d closure(s) passed to %s annotated' % (n, method))
        return self

    def R4(self):
        t = self.text
        t, n1 = re.subn(r'"[^"\n]*"\.to_string\(\)', 'msg()', t)
        t, n2 = re.subn(r'format!\(\s*"(?:[^"\\]|\\.|\\\n)*"\s*(?:,\s*[A-Za-z_][A-Za-z_0-9\.]*(?:\(\))?\s*)*,?\s*\)', 'msg()', t, flags=re.S)
        t, n3 = re.subn(r'"[^"\n]*"\.into\(\)', 'msg()', t)
        if n1 + n2 + n3:
            self._fired('R4', '%d message site(s)' % (n1 + n2 + n3))
        self.text = t
        return self

    def R5(self):
        pat = re.compile(r'(?m)^([ \t]*)if ([^\n]+?) \{\n((?:(?![ \t]*\}\n)[^\n]*\n)*?)[ \t]*continue;\n[ \t]*\}\n')
        text = self.text
        n = 0
        while True:
            m = pat.search(text)
            if not m:
                break
            indent = m.group(1)
            lines = text[m.end():].split('\n')
            k = None
            for k2, l in enumerate(lines):
                if l.strip() == '}' and len(l) - len(l.lstrip()) < len(indent):
                    k = k2
                    break
            if k is None:
                raise LostAnchor('rule R5 in %s: enclosing block end not found' % self.label)
            body = '\n'.join(lines[:k])
            tail = '\n'.join(lines[k:])
            pre = m.group(3)
            if pre.strip():
                # `if C { S; continue; } REST` -> `if C { S; } else { REST }`
                text = text[:m.start()] + '%sif %s {\n%s%s} else {\n' % (indent, m.group(2), pre, indent) + body + '\n%s}\n' % indent + tail
            else:
                text = text[:m.start()] + '%sif !(%s) {\n' % (indent, m.group(2)) + body + '\n%s}\n' % indent + tail
            n += 1
        if 'continue;' in text:
            raise LostAnchor('rule R5 in %s: a `continue` of another shape remains' % self.label)
        if n:
            self._fired('R5', '%d site(s)' % n)
        self.text = text
        return self

    def R6(self):
        text = self.text
        pat = re.compile(r'if let (.+?) = ([^\n{]+?)\s*\n?\s*&& ([^\n{]+?)\s*\n?\s*\{')
        n = 0
        while True:
            code = scan(text)
            m = None
            for mm in pat.finditer(text):
                if code[mm.start()]:
                    m = mm
                    break
            if not m:
                break
            ob = m.end() - 1
            cb = match_close(text, code, ob)
            if text[cb + 1:].lstrip().startswith('else'):
                raise LostAnchor('rule R6 in %s: let chain with else' % self.label)
            text = text[:m.start()] + 'if let %s = %s { if %s {' % (m.group(1), m.group(2), m.group(3)) + text[ob + 1:cb] + '} }' + text[cb + 1:]
            n += 1
        if n:
            self._fired('R6', '%d site(s)' % n)
        self.text = text
        return self

    # ---- contract splicing (never touches executable tokens) ----
    def ret(self, name):
        self.ret_name = name
        return self

    def props(self, *props):
        self.props_default = list(props)
        return self

    def requires(self, name, expr, props=None):
        self.contract.append(('requires', name, expr, props))
        return self

    def ensures(self, name, expr, props=None):
        self.contract.append(('ensures', name, expr, props))
        return self

    def decreases(self, expr):
        self.contract.append(('decreases', 'termination', expr, None))
        return self

    def sig_attr(self, text):
        """text placed on its own line before the fn (e.g. #[verifier::...] proof-only attributes)."""
        self._sig_extra = text
        return self

    def loop(self, n):
        return LoopOps(self, n)

    def body_start(self, text):
        self.ops.append(('body_start', None, text))
        return self

    def before(self, anchor, text, nth=0, optional=False):
        """optional=True: a proof hint whose anchor statement may legitimately be absent (then the hint is skipped and the proof decides)"""
        self.ops.append(('before', (anchor, nth, optional), text))
        return self

    def after(self, anchor, text, nth=0, optional=False):
        self.ops.append(('after', (anchor, nth, optional), text))
        return self

    def body_end(self, text):
        """insert just before the closing brace of the fn body (unit-returning functions)."""
        self.ops.append(('body_end', None, text))
        return self

    def insert_inline(self, anchor, text, nth=0, optional=False):
        """insert annotation text immediately after the nth code occurrence of anchor (e.g. a closure's `-> (r: T) ensures ..`)."""
        self.ops.append(('inline', (anchor, nth, optional), text))
        return self

    def before_tail(self, text):
        """insert before the last line of the fn body (the tail expression line)."""
        self.ops.append(('before_tail', None, text))
        return self

    def replace_ghost(self, anchor, text):
        """NOT allowed: exec tokens are never replaced at splice time."""
        raise RuntimeError('splice may only insert')

    # ---- rendering ----
    def full_label(self):
        return '%s::%s' % (self.unit.name, self.label)

    def render(self, twin=False):
        if self.kind != 'fn':
            return self.text
        if not getattr(self, '_r6_auto', False):
            # syntax-only normalisation applied to every function, whether or not today's source needs it (lesson of seed S4_C13):
            # a let chain introduced by a later change must not turn a violation into "unsupported construct"
            self._r6_auto = True
            try:
                self.R6()
            except LostAnchor:
                pass
        text = self.text
        code = scan(text)
        m = re.search(r'\bfn\s+\w+', text)
        while m and not code[m.start()]:
            m = re.search(r'\bfn\s+\w+', text[m.end():])
        if not m:
            raise LostAnchor('no fn keyword in %s' % self.label)
        bo, ch = body_open(text, code, m.end())
        if ch != '{':
            raise LostAnchor('fn without body: %s' % self.label)
        bc = match_close(text, code, bo)
        ins = []   # (pos, order, text)
        order = [0]

        def add(pos, t):
            order[0] += 1
            ins.append((pos, order[0], t))

        # -- signature: name the return value
        sig = text[m.end():bo]
        if self.ret_name:
            # find `->` at depth 0 in the signature
            depth = 0
            arrow = None
            for i in range(m.end(), bo):
                if not code[i]:
                    continue
                if text[i] in '([<' and not (text[i] == '<' and text[i - 1] == '-'):
                    depth += 1
                elif text[i] in ')]' or (text[i] == '>' and text[i - 1] != '-'):
                    depth -= 1
                elif text.startswith('->', i) and depth == 0:
                    arrow = i
                    break
            if arrow is None:
                raise LostAnchor('no return type in %s' % self.label)
            w = re.search(r'\bwhere\b', text[arrow:bo])
            rt_end = arrow + w.start() if w else bo
            rt = text[arrow + 2:rt_end].strip()
            add(arrow, None)  # placeholder to keep ordering semantics simple
            ins.pop()
            text_ret = '-> (%s: %s)%s' % (self.ret_name, rt, ' ' if w else '')
            # replace the return type textually (type tokens only)
            text = text[:arrow] + text_ret + text[rt_end:]
            code = scan(text)
            bo, ch = body_open(text, code, m.end())
            bc = match_close(text, code, bo)
        # -- contract clauses
        clauses = {'requires': [], 'ensures': [], 'decreases': []}
        for kind, name, expr, props in self.contract:
            clauses[kind].append((name, expr))
        if twin and self.label in twin and (clauses['requires'] or clauses['ensures']) and not self.is_trusted_body():
            clauses['ensures'].append(('VACUITY', 'false'))
        ctext = ''
        for kind in ('requires', 'ensures', 'decreases'):
            if clauses[kind]:
                ctext += '\n    %s\n' % kind
                for name, expr in clauses[kind]:
                    ctext += '        /*@%s::%s#%s*/ %s,\n' % (self.full_label(), {'requires': 'pre', 'ensures': 'post', 'decreases': 'termination'}[kind], name, expr)
        if ctext:
            add(bo, ctext)
        # -- loops
        loops = find_loops(text, code, bo, bc)
        for n, lops in sorted(self.loop_ops.items(), key=lambda kv: str(kv[0])):
            if isinstance(n, str):
                # a loop named by a fragment of its header: optional-match - if the loop has disappeared there is nothing to annotate and the proof decides
                hits = [k for k, lp in enumerate(loops) if n in text[lp[1]:lp[2]]]
                if not hits:
                    continue
                n = hits[0]
            if n >= len(loops):
                raise LostAnchor('loop #%d not found in %s (found %d loops)' % (n, self.label, len(loops)))
            kw, kw_pos, lbo, lbc, in_pos = loops[n]
            if lops.get('kind') and lops['kind'] != kw:
                raise LostAnchor('loop #%d in %s is `%s`, expected `%s`' % (n, self.label, kw, lops['kind']))
            if lops.get('iter'):
                if kw != 'for':
                    raise LostAnchor('loop #%d in %s is not a for loop' % (n, self.label))
                add(in_pos, ' %s:' % lops['iter'])
            lt = ''
            if lops.get('invariants_eb'):
                lt += '\n    invariant_except_break\n'
                for name, expr in lops['invariants_eb']:
                    lt += '        /*@%s::inv#L%d.%s*/ %s,\n' % (self.full_label(), n, name, expr)
            if lops.get('invariants'):
                lt += '\n    invariant\n'
                for name, expr in lops['invariants']:
                    lt += '        /*@%s::inv#L%d.%s*/ %s,\n' % (self.full_label(), n, name, expr)
            if lops.get('ensures'):
                lt += '\n    ensures\n'
                for name, expr in lops['ensures']:
                    lt += '        /*@%s::inv#L%d.%s*/ %s,\n' % (self.full_label(), n, name, expr)
            if lops.get('decreases'):
                lt += '\n    decreases /*@%s::termination#L%d*/ %s,\n' % (self.full_label(), n, lops['decreases'])
            if lt:
                add(lbo, lt)
            for t in lops.get('body_start', []):
                add(lbo + 1, '\n' + t + '\n')
            for t in lops.get('body_end', []):
                add(lbc, '\n' + t + '\n')
            for t in lops.get('before', []):
                add(_line_start(text, kw_pos), t + '\n')
            for t in lops.get('after', []):
                add(lbc + 1, '\n' + t + '\n')
        # -- other positional ops
        for op, arg, t in self.ops:
            if op == 'body_start':
                add(bo + 1, '\n' + t + '\n')
            elif op == 'body_end':
                add(bc, t + '\n')
            elif op == 'before_tail':
                add(_line_start(text, tail_start(text, code, bo, bc)), t + '\n')
            else:
                anchor, nth, optional = arg
                idxs = [mm.start() for mm in re.finditer(re.escape(anchor), text) if code[mm.start()]]
                if len(idxs) <= nth and optional:
                    continue
                if len(idxs) <= nth:
                    raise LostAnchor('splice anchor %r (#%d) not found in %s' % (anchor, nth, self.label))
                p = idxs[nth]
                if op == 'inline':
                    add(p + len(anchor), t)
                elif op == 'before':
                    add(_line_start(text, p), t + '\n')
                else:
                    e = text.find('\n', p)
                    e = len(text) if e < 0 else e
                    add(e, '\n' + t)
        out = text
        for pos, _, t in sorted(ins, key=lambda x: (-x[0], -x[1])):
            out = out[:pos] + t + out[pos:]
        if self._sig_extra:
            out = self._sig_extra + '\n' + out
        return out

    def is_trusted_body(self):
        return bool(self._sig_extra and 'external_body' in self._sig_extra)

    def extraction_diff(self):
        a = self.orig.split('\n')
        b = self.text.split('\n')
        return '\n'.join(difflib.unified_diff(a, b, 'repo:%s:%d' % (self.path, self.line), 'verified-text', lineterm='', n=1))

    def sha(self):
        return hashlib.sha256(self.text.encode()).hexdigest()[:16]


def tail_start(text, code, bo, bc):
    """Start of the tail expression (last top-level statement) of the block text[bo..bc]."""
    depth = 0
    last_end = bo + 1
    i = bo + 1
    while i < bc:
        if code[i]:
            ch = text[i]
            if ch in '([{':
                depth += 1
            elif ch in ')]}':
                depth -= 1
                if ch == '}' and depth == 0:
                    j = i + 1
                    while j < bc and text[j] in ' \t\n':
                        j += 1
                    nxt = text[j:j + 4]
                    if j < bc and not (nxt.startswith('else') or nxt[:1] in '.?)],;=+-*/&|<>'):
                        last_end = i + 1
            elif ch == ';' and depth == 0:
                last_end = i + 1
        i += 1
    j = last_end
    while j < bc and text[j] in ' \t\n':
        j += 1
    if j >= bc:
        raise LostAnchor('no tail expression')
    return j


def _line_start(text, pos):
    return text.rfind('\n', 0, pos) + 1


def _dedent(text):
    lines = text.split('\n')
    ind = None
    for l in lines:
        if l.strip():
            k = len(l) - len(l.lstrip())
            ind = k if ind is None else min(ind, k)
    ind = ind or 0
    return '\n'.join(l[ind:] if len(l) >= ind else l for l in lines)


class LoopOps:
    def __init__(self, fn, n):
        self.d = fn.loop_ops.setdefault(n, {})
        self.fn = fn
        self.n = n

    def kind(self, kw):
        self.d['kind'] = kw
        return self

    def props(self, *props):
        """properties this loop's invariants serve (a failing invariant is evidence against these only)."""
        self.d['props'] = list(props)
        return self

    def iter(self, name):
        self.d['iter'] = name
        return self

    def invariant(self, name, expr):
        self.d.setdefault('invariants', []).append((name, expr))
        return self

    def invariant_except_break(self, name, expr):
        self.d.setdefault('invariants_eb', []).append((name, expr))
        return self

    def ensures(self, name, expr):
        """what holds when the loop is left through `break` (Verus loop `ensures`)"""
        self.d.setdefault('ensures', []).append((name, expr))
        return self

    def invariants(self, *pairs):
        for name, expr in pairs:
            self.invariant(name, expr)
        return self

    def decreases(self, expr):
        self.d['decreases'] = expr
        return self

    def body_start(self, text):
        self.d.setdefault('body_start', []).append(text)
        return self

    def body_end(self, text):
        self.d.setdefault('body_end', []).append(text)
        return self

    def before(self, text):
        self.d.setdefault('before', []).append(text)
        return self

    def after(self, text):
        self.d.setdefault('after', []).append(text)
        return self


def find_loops(text, code, lo, hi):
    """Loops (for/while/loop) in textual order inside text[lo:hi] -> (kw, kw_pos, body_open, body_close, in_pos)."""
    res = []
    for m in re.finditer(r'\b(for|while|loop)\b', text[lo:hi]):
        p = lo + m.start()
        if not code[p]:
            continue
        kw = m.group(1)
        # skip `for<'a>` and `impl X for Y`
        after = text[p + len(kw):p + len(kw) + 1]
        if kw == 'for' and after == '<':
            continue
        # must be at statement/expression start: previous non-space char is one of  ; { } ) = ( , : or label
        q = p - 1
        while q >= 0 and text[q] in ' \t\n':
            q -= 1
        if q >= 0 and (text[q].isalnum() or text[q] == '_'):
            # `'label: for` has ':' before; identifiers before mean e.g. `impl T for U` – not a loop
            continue
        try:
            bo, ch = body_open(text, code, p + len(kw), hi)
        except LostAnchor:
            continue
        if ch != '{':
            continue
        bc = match_close(text, code, bo)
        in_pos = None
        if kw == 'for':
            depth = 0
            i = p + 3
            while i < bo:
                if code[i]:
                    if text[i] in '([':
                        depth += 1
                    elif text[i] in ')]':
                        depth -= 1
                    elif depth == 0 and re.match(r'\bin\b', text[i:i + 3]) and not (text[i - 1].isalnum() or text[i - 1] == '_') \
                            and not (text[i + 2].isalnum() or text[i + 2] == '_'):
                        in_pos = i + 2
                        break
                i += 1
        res.append((kw, p, bo, bc, in_pos))
    return res


# --------------------------------------------------------------------------------------------------
class Unit:
    def __init__(self, name, props, repo, template=None, features=(), edition2024=False, rlimit=None):
        self.name = name
        self.props = list(props)
        self.repo = repo
        self.template = template
        self.pieces = {}
        self.order = []
        self.features = list(features)
        self.edition2024 = edition2024
        self.rlimit = rlimit
        self.trusted = []      # (keyword-bearing text id, reason)
        self.assumptions = []
        self.not_covered = []
        self.sources = {}
        self.lemma_props = {}
        self.stand_ins = []

    def source(self, rel):
        if rel not in self.sources:
            self.sources[rel] = Source(os.path.join(self.repo, rel))
        return self.sources[rel]

    def _add(self, p):
        if p.label in self.pieces:
            raise RuntimeError('duplicate piece ' + p.label)
        self.pieces[p.label] = p
        self.order.append(p.label)
        return p

    def item(self, rel, kind, name, label=None):
        s = self.source(rel)
        text, line = s.item(kind, name)
        return self._add(Piece(self, label or name, text, rel, line, 'item'))

    def method(self, rel, ty, name, trait=None, label=None):
        s = self.source(rel)
        text, line, header = s.method(ty, name, trait)
        return self._add(Piece(self, label or '%s::%s' % (ty, name), text, rel, line, 'fn', header))

    def free_fn(self, rel, name, label=None):
        s = self.source(rel)
        text, line = s.free_fn(name)
        return self._add(Piece(self, label or name, text, rel, line, 'fn'))

    def trust(self, what, reason):
        self.trusted.append((what, reason))

    def assume(self, text):
        self.assumptions.append(text)

    def render(self, twin=False):
        out = self.template
        for label in self.order:
            ph = '@@%s@@' % label
            if out.count(ph) != 1:
                raise RuntimeError('placeholder %s occurs %d times in unit %s' % (ph, out.count(ph), self.name))
            p = self.pieces[label]
            # indent to the placeholder's column
            col = out.find(ph) - (out.rfind('\n', 0, out.find(ph)) + 1)
            r = p.render(twin=twin)
            r = ('\n' + ' ' * col).join(r.split('\n'))
            out = out.replace(ph, r)
        left = re.findall(r'@@[\w:]+@@', out)
        if left:
            raise RuntimeError('unfilled placeholders %s' % left)
        head = ''.join('#![feature(%s)]\n' % f for f in self.features)
        return head + out

    # -- obligation inventory (counted from the spliced text, not constants)
    def inventory(self, rendered):
        names = re.findall(r'/\*@([^*]+)\*/', rendered)
        lem = re.findall(r'\bproof fn (\w+)', rendered)
        asserts = len(re.findall(r'\bassert\s*(?:\(|forall\b)', rendered))
        fns = [p.full_label() for p in self.pieces.values() if p.kind == 'fn']
        return {'clauses': names, 'lemmas': lem, 'asserts': asserts, 'functions': fns}


TRUST_PAT = re.compile(r'\b(assume\s*\(|admit\s*\(|external_body|assume_specification|external_fn_specification|external_type_specification|#\[verifier::external\]|#\[verifier::external_trait|axiom\b)')


def trusted_scan(rendered):
    code = scan(rendered)
    hits = []
    for m in TRUST_PAT.finditer(rendered):
        if code[m.start()]:
            line = rendered.count('\n', 0, m.start()) + 1
            hits.append((line, m.group(1).strip(), rendered.split('\n')[line - 1].strip()[:160]))
    return hits


# --------------------------------------------------------------------------------------------------
VERIF_FAIL_PATTERNS = [
    ('post', r'postcondition not satisfied|unable to prove post-?condition'),
    ('pre', r'precondition not satisfied|unable to prove pre-?condition'),
    ('assert', r'assertion failed'),
    ('inv', r'invariant not satisfied'),
    ('overflow', r'possible arithmetic (underflow/overflow|overflow|underflow)'),
    ('divzero', r'possible division by zero'),
    ('shift', r'possible bit shift underflow/overflow'),
    ('termination', r'decreases not satisfied|could not prove termination'),
    ('bounds', r'index out of bounds|possible index'),
    ('unreachable', r'unreached|unreachable'),
    ('cast', r'possible truncation|cast'),
]
UNDECIDED_PATTERNS = [r'[Rr]esource limit', r'rlimit', r'timed out', r'unexpected SMT', r'Z3 process']


def classify_message(msg):
    for u in UNDECIDED_PATTERNS:
        if re.search(u, msg):
            return 'undecided', 'rlimit'
    for kind, pat in VERIF_FAIL_PATTERNS:
        if re.search(pat, msg):
            return 'fail', kind
    return 'other', None


def run_verus(path, workdir, rlimit=None, seed=None, edition2024=False, timeout=900):
    cmd = [VERUS, os.path.basename(path), '--output-json', '--time', '--error-format=json', '--multiple-errors', '4']
    if edition2024:
        cmd += ['--edition=2024']
    if rlimit:
        cmd += ['--rlimit', str(rlimit)]
    if seed is not None:
        cmd += ['--smt-option', 'smt.random_seed=%d' % seed]
    t0 = time.time()
    try:
        p = subprocess.run(cmd, cwd=workdir, capture_output=True, text=True, timeout=timeout)
    except subprocess.TimeoutExpired:
        return {'cmd': ' '.join(cmd), 'timeout': True, 'wall_s': time.time() - t0, 'diags': [], 'json': None, 'stderr': 'timeout'}
    wall = time.time() - t0
    js = None
    try:
        start = p.stdout.find('{')
        js = json.loads(p.stdout[start:]) if start >= 0 else None
    except Exception:
        js = None
    diags = []
    for line in p.stderr.split('\n'):
        line = line.strip()
        if line.startswith('{') and '"$message_type"' in line:
            try:
                d = json.loads(line)
            except Exception:
                continue
            if d.get('$message_type') == 'diagnostic':
                diags.append(d)
    return {'cmd': ' '.join(cmd), 'timeout': False, 'wall_s': wall, 'diags': diags, 'json': js, 'stderr': p.stderr, 'rc': p.returncode}


def _marker_for(lines, line_no, lo_line):
    """Nearest /*@name*/ marker at or above line_no (1-based), not above lo_line."""
    i = line_no
    while i >= max(1, lo_line):
        m = re.findall(r'/\*@([^*]+)\*/', lines[i - 1])
        if m:
            return m[-1] if i < line_no else m[0]
        i -= 1
    return None


def analyse(unit, rendered, res, twin=False):
    """Turn Verus output into failures / undecided reasons, mapped to obligation names."""
    lines = rendered.split('\n')
    # function line ranges in the rendered file
    ranges = []
    for label, p in unit.pieces.items():
        if p.kind != 'fn':
            continue
        mname = re.search(r'\bfn\s+(\w+)', p.text).group(1)
        ranges.append((label, mname))
    failures, undecided, others = [], [], []
    if res['timeout']:
        undecided.append('verus timed out')
    js = res['json']
    for d in res['diags']:
        if d.get('level') != 'error':
            continue
        msg = d.get('message', '')
        if msg.startswith('aborting due to'):
            continue
        cls, kind = classify_message(msg)
        spans = d.get('spans') or []
        prim = [s for s in spans if s.get('is_primary')] or spans
        if cls == 'undecided':
            undecided.append(msg)
            continue
        if cls == 'other' or d.get('code'):
            others.append((msg, prim[0]['line_start'] if prim else 0, d.get('rendered', '')[:2000]))
            continue
        # find enclosing function: walk up to the nearest `fn name` line
        ln = prim[0]['line_start'] if prim else 1
        fn_label, fn_line = None, 1
        for i in range(ln, 0, -1):
            mm = re.search(r'\bfn\s+(\w+)', lines[i - 1])
            if mm and not lines[i - 1].lstrip().startswith('//'):
                cands = [l for l, n in ranges if n == mm.group(1)]
                fn_label = cands[0] if len(cands) == 1 else (cands[0] if cands else mm.group(1))
                # disambiguate same-named methods by impl header above
                if len(cands) > 1:
                    for j in range(i, 0, -1):
                        mi = re.match(r'\s*impl\b(.*)\{', lines[j - 1])
                        if mi:
                            for c in cands:
                                if c.split('::')[0] in mi.group(1):
                                    fn_label = c
                            break
                fn_line = i
                break
        name = None
        # prefer a marker inside any span of this diagnostic (the failing clause), else nearest above the primary
        for s in prim + [x for x in spans if not x.get('is_primary') and x['line_end'] - x['line_start'] <= 3]:
            for l in range(s['line_start'], s['line_end'] + 1):
                mk = re.findall(r'/\*@([^*]+)\*/', lines[l - 1]) if l - 1 < len(lines) else []
                if mk:
                    name = mk[0]
                    break
            if name:
                break
        if not name and kind in ('post', 'inv', 'pre', 'termination'):
            for s in spans:
                mk = _marker_for(lines, s['line_start'], fn_line)
                if mk:
                    name = mk
                    break
        src_line = lines[ln - 1].strip() if ln - 1 < len(lines) else ''
        if not name:
            name = '%s::%s::%s@%s' % (unit.name, fn_label, kind, re.sub(r'\s+', ' ', src_line)[:70])
        failures.append({'obligation': name, 'kind': kind, 'function': fn_label, 'message': msg,
                         'line': ln, 'source_line': src_line, 'rendered': d.get('rendered', '')[:3000]})
    vr = (js or {}).get('verification-results', {})
    if js is None and not res['timeout'] and not failures and not others:
        undecided.append('verus produced no JSON result')
    if vr.get('encountered-vir-error'):
        undecided.append('VIR error (construct rejected by Verus)')
    if others:
        undecided.append('compile/unsupported: ' + '; '.join('%s (line %d)' % (m[:200], l) for m, l, _ in others[:5]))
    # per-function times
    ftimes = []
    try:
        for mod in js['times-ms']['smt']['smt-run-module-times']:
            for f in mod.get('function-breakdown', []):
                ftimes.append({'function': f['function'], 'mode': f.get('mode:'), 'ms': f['time'], 'rlimit': f.get('rlimit'), 'success': f.get('success')})
    except Exception:
        pass
    return {'failures': failures, 'undecided': undecided, 'others': others, 'verified': vr.get('verified'), 'errors': vr.get('errors'),
            'success': vr.get('success'), 'fn_times': ftimes, 'wall_s': res['wall_s'], 'cmd': res['cmd'],
            'smt_ms': ((js or {}).get('times-ms', {}).get('smt', {}) or {}).get('total')}


def run_unit(unit, workdir, tier='quick', seeds=(), keep=True):
    """Render, verify, vacuity twin, trusted scan.  Returns a result dict."""
    os.makedirs(workdir, exist_ok=True)
    t0 = time.time()
    out = {'unit': unit.name, 'engine': 'verus', 'props': unit.props, 'status': 'ok', 'failures': [], 'undecided': [], 'runs': []}
    rendered = unit.render()
    path = os.path.join(workdir, unit.name + '.rs')
    open(path, 'w').write(rendered)
    out['file'] = path
    out['rendered'] = rendered
    inv = unit.inventory(rendered)
    out['inventory'] = inv
    # trusted scan
    hits = trusted_scan(rendered)
    out['trusted_hits'] = hits
    declared = len(unit.trusted)
    if len(hits) != declared:
        out['status'] = 'undecided'
        out['undecided'].append('trusted scan: %d trust keywords in the spliced text, %d declared in the unit: %s' % (len(hits), declared, hits))
    res = run_verus(path, workdir, rlimit=unit.rlimit, edition2024=unit.edition2024)
    a = analyse(unit, rendered, res)
    out['runs'].append({'kind': 'main', **{k: a[k] for k in ('verified', 'errors', 'wall_s', 'cmd', 'smt_ms')}})
    out['fn_times'] = a['fn_times']
    out['verified'] = a['verified']
    out['failures'] += a['failures']
    out['undecided'] += a['undecided']
    out['raw_stderr'] = res['stderr'][-20000:]
    if not a['failures'] and not a['undecided'] and a['success'] is not True:
        out['undecided'].append('verus did not report success')
    # vacuity twin(s): `ensures false` must be refuted for every contracted function.  A callee carrying `false`
    # would make its callers vacuous, so functions that call each other are put into different twin runs.
    if not out['failures'] and not out['undecided']:
        contracted = [p for p in unit.pieces.values() if p.kind == 'fn' and not p.is_trusted_body() and any(k in ('requires', 'ensures') for k, *_ in p.contract)]
        names = {p.label: re.search(r'\bfn\s+(\w+)', p.text).group(1) for p in contracted}
        classes = []
        for p in contracted:
            placed = False
            for cl in classes:
                if all(not re.search(r'\b%s\s*\(' % re.escape(names[q.label]), p.text.split('{', 1)[-1]) and
                       not re.search(r'\b%s\s*\(' % re.escape(names[p.label]), q.text.split('{', 1)[-1]) for q in cl):
                    cl.append(p)
                    placed = True
                    break
            if not placed:
                classes.append([p])
        refuted, rl, twall, tcmds = set(), [], 0.0, []

        def run_twin(arg):
            ci, cl = arg
            twin = unit.render(twin={p.label for p in cl})
            tpath = os.path.join(workdir, '%s__twin%d.rs' % (unit.name, ci))
            open(tpath, 'w').write(twin)
            # a small rlimit: "false was not provable within the limit" already means the contract is not vacuous
            tres = run_verus(tpath, workdir, rlimit=min(unit.rlimit or 10, 4), edition2024=unit.edition2024)
            ta = analyse(unit, twin, tres, twin=True)
            if not keep:
                os.unlink(tpath)
            return ci, ta
        from concurrent.futures import ThreadPoolExecutor
        with ThreadPoolExecutor(max_workers=4) as ex:
            twins = list(ex.map(run_twin, list(enumerate(classes))))
        for ci, ta in twins:
            for f in ta['failures']:
                if f['obligation'].endswith('#VACUITY'):
                    refuted.add(f['obligation'].rsplit('::post#VACUITY', 1)[0])
            # an rlimit on the twin means `false` was not provable within the limit: not vacuous
            rl += [u for u in ta['undecided'] if 'esource limit' in u or 'rlimit' in u]
            twall += ta['wall_s']
            out['runs'].append({'kind': 'vacuity-twin-%d' % ci, 'verified': ta['verified'], 'errors': ta['errors'], 'wall_s': ta['wall_s'], 'cmd': ta['cmd'], 'smt_ms': ta['smt_ms']})
        vac = [p.full_label() for p in contracted if p.full_label() not in refuted]
        if vac and not rl:
            out['undecided'].append('vacuity guard: `ensures false` verified for %s' % vac)
        out['vacuity'] = {'contracted': len(contracted), 'refuted_false': len(refuted), 'rlimit': len(rl), 'twin_runs': len(classes), 'wall_s': twall}
    # brittleness: extra seeds (thorough)
    if not out['failures'] and not out['undecided']:
        for sd in seeds:
            r2 = run_verus(path, workdir, rlimit=unit.rlimit, seed=sd, edition2024=unit.edition2024)
            a2 = analyse(unit, rendered, r2)
            out['runs'].append({'kind': 'seed=%d' % sd, 'verified': a2['verified'], 'errors': a2['errors'], 'wall_s': a2['wall_s'], 'cmd': a2['cmd'], 'smt_ms': a2['smt_ms']})
            if a2['failures'] or a2['undecided']:
                # a proof that holds with the default seed but not with another is brittle, not refuted
                out['brittle'] = out.get('brittle', []) + [{'seed': sd, 'failures': [f['obligation'] for f in a2['failures']], 'undecided': a2['undecided']}]
    if out['failures']:
        out['status'] = 'violation'
    elif out['undecided']:
        out['status'] = 'undecided'
    out['wall_s'] = time.time() - t0
    return out
