#!/usr/bin/env python3
"""selftest: deliberate property-breaking edits, each applied to a scratch copy of /repo's sources (deleted afterwards).
For each, the named check must exit 1 with a VIOLATION whose obligation contains the expected substring.
Usage: tools/selftest.py [id ...]     (no id = all Verus-only mutations; --kani adds the Kani ones)"""
import json
import os
import shutil
import subprocess
import sys
import tempfile

HERE = os.path.dirname(os.path.abspath(__file__))
VERIF = os.path.dirname(HERE)
REPO = os.environ.get('REPO', '/repo')
MUT = json.load(open(os.path.join(VERIF, 'selftest', 'mutations.json')))


def scratch_copy():
    d = tempfile.mkdtemp(prefix='grafeo-verif-selftest-', dir=os.environ.get('VERIF_SCRATCH', '/var/tmp'))
    for f in ('Cargo.toml', 'Cargo.lock'):
        shutil.copy(os.path.join(REPO, f), d)
    shutil.copytree(os.path.join(REPO, 'crates'), os.path.join(d, 'crates'), ignore=shutil.ignore_patterns('target'))
    return d


def run(m):
    d = scratch_copy()
    try:
        p = os.path.join(d, m['file'])
        s = open(p).read()
        parts = s.split(m['old'])
        nth = m.get('nth', 0)
        if len(parts) <= nth + 1:
            return 'ERROR', 'mutation anchor not found: %r' % m['old']
        s = m['old'].join(parts[:nth + 1]) + m['new'] + m['old'].join(parts[nth + 1:])
        open(p, 'w').write(s)
        env = dict(os.environ, REPO=d, VERIF_EVIDENCE_DIR=os.path.join(VERIF, 'work', 'selftest-evidence'),
                   VERIF_REPLAY_DIR=os.path.join(VERIF, 'work', 'selftest-replays'))
        cmd = [os.path.join(VERIF, 'vc'), 'check', m['property'], '--units', m['unit']]
        if m.get('harness'):
            cmd += ['--harness', m['harness']]
        r = subprocess.run(cmd, capture_output=True, text=True, env=env, cwd=VERIF)
        out = r.stdout + r.stderr
        viol = [l for l in out.split('\n') if l.startswith('VIOLATION') or l.strip().startswith('obligation ')]
        if m.get('harmless'):
            return ('QUIET-OK' if r.returncode == 0 else 'FALSE-ALARM'), out[-300:]
        if r.returncode == 1 and any(m['expect'] in l for l in viol):
            return 'CAUGHT', '; '.join(l.strip()[:160] for l in viol if 'obligation' in l)[:400]
        if r.returncode == 1:
            return 'CAUGHT-OTHER', '; '.join(l.strip()[:160] for l in viol)[:400]
        return ('UNDECIDED' if r.returncode == 2 else 'MISSED'), out[-600:]
    finally:
        shutil.rmtree(d, ignore_errors=True)


def main():
    args = [a for a in sys.argv[1:] if not a.startswith('--')]
    kani = '--kani' in sys.argv
    bad = 0
    for m in MUT:
        if args and m['id'] not in args:
            continue
        if not args and m.get('engine') == 'kani' and not kani:
            continue
        v, detail = run(m)
        print('%-8s %-12s %s :: %s' % (m['id'], v, m['what'], detail.replace('\n', ' ')[:300]))
        if v == 'UNDECIDED' and m.get('undecided_ok'):
            v = 'UNDECIDED-OK'      # a change of shape the extraction rules do not know: exit 2, never quiet
            print('         (accepted: %s)' % m['undecided_ok'])
        if v not in ('CAUGHT', 'CAUGHT-OTHER', 'QUIET-OK', 'UNDECIDED-OK'):
            bad += 1
    return 1 if bad else 0


if __name__ == '__main__':
    sys.exit(main())
