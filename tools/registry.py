"""Property -> units.  A unit module exposes build(repo) returning a vlib.Unit (Verus) or klib.KaniUnit (Kani)."""

PROPERTIES = {
    'C15': {
        'units': ['rle'],
        'level': 'proof',
        'explanation': 'Codec kernels of crates/grafeo-core/src/storage extracted from the working tree and verified against sequence-level specifications '
                       '(decode(encode(v)) == v, random access == full decoding) for every length and every value.',
    },
    'C16': {
        'units': ['value_laws'],
        'level': 'proof',
        'explanation': 'Loop-free Kani harnesses over every bit pattern of the scalar payloads: equivalence, total order, eq/cmp/hash agreement '
                       'for OrderedFloat64, OrderableValue and HashableValue on the heap-free variants, and Timestamp.',
    },
}
