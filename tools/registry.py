"""Property -> units.  A unit module exposes build(repo) returning a vlib.Unit (Verus) or klib.KaniUnit (Kani)."""

PROPERTIES = {
    'C15': {
        'units': ['rle', 'bitpack', 'delta', 'bitvec'],
        'level': 'proof',
        'technique': 'Verus function contracts + loop invariants on mechanically extracted codec functions (unbounded); Kani loop-free harness for zig-zag',
        'level_text': 'Deductive proof, for all inputs and lengths, that each contracted codec function meets a sequence-level specification from which the round trip and random-access agreement follow as lemmas over the contracts; bounded stand-ins are listed separately and not counted.',
        'level_note': 'Trusted: Verus/Z3, the extraction rules listed in the evidence (diff included), usize = 64 bit. Not covered: dictionary, codec selector, compressed columns, succinct structures.',
        'explanation': 'Codec kernels of crates/grafeo-core/src/storage extracted from the working tree and verified against sequence-level specifications '
                       '(decode(encode(v)) == v, random access == full decoding) for every length and every value.',
    },
    'C16': {
        'units': ['value_laws'],
        'level': 'proof',
        'technique': 'Kani/CBMC loop-free harnesses over all bit patterns of the real eq/cmp/hash impls (complete, not bounded)',
        'level_text': 'Bit-precise proof over every f64/i64/bool payload that the wrappers satisfy equivalence / total-order / eq-hash agreement laws on the heap-free variants; counterexamples are replayed natively on the real crate.',
        'level_note': 'Trusted: Kani/CBMC; a recording Hasher stands for every Hasher. Not covered: String/Bytes/List/Map/Vector variants, serialisation round trips.',
        'explanation': 'Loop-free Kani harnesses over every bit pattern of the scalar payloads: equivalence, total order, eq/cmp/hash agreement '
                       'for OrderedFloat64, OrderableValue and HashableValue on the heap-free variants, and Timestamp.',
    },
}

NOT_APPLICABLE = {
    'C01': 'pending', 'C02': 'pending', 'C03': 'pending', 'C04': 'pending',
    'C05': 'Persistence is GrafeoDB::{with_config,close} + WalManager + WalRecovery + bincode over File/BufReader: Verus has no file model, Kani cannot execute syscalls, and the store side is RwLock<FxHashMap> code outside both verifiers; no function contract in reach expresses "reopens to the same state".',
    'C06': 'A crash point is a file-system state (bytes present after the last fsync, temp files); no pre/postcondition of read_record(&mut BufReader<File>) or log() can range over those states with the installed verifiers.',
    'C07': 'Export/import is bincode (external serializer) + whole-store enumeration over RwLock<FxHashMap>; neither verifier can take it (hash maps intractable in Kani, locks/bincode unsupported in Verus).',
    'C08': 'Needs a reference semantics for whole queries through translator, binder, planner and a tree of Box<dyn Operator>; contracts on single functions cannot express "rows equal the bindings of the pattern".',
    'C09': 'Semantic equivalence of LogicalOperator trees under rewriting needs a denotational semantics of the whole algebra; no function-level contract within reach decides it.',
    'C10': 'pending', 'C11': 'pending', 'C12': 'pending', 'C13': 'pending', 'C14': 'pending',
    'C17': 'The one integer kernel (generate_morsels) is step_by().enumerate() code: unspecifiable in Verus, and Kani did not finish in 5 min even at 3 rows; the rest is schedulers, heaps, f64 accumulators and spill files.',
    'C18': 'Distances are f64 reductions with SIMD intrinsics, HNSW is RwLock + HashMap + RNG, and the feature is in no default build; outside both verifiers.',
    'C19': 'Optimality specifications over HashMap-based graph views with f64 weights; no contract within reach expresses them.',
    'C20': 'pending',
}
