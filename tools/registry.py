"""Property -> units.  A unit module exposes build(repo) returning a vlib.Unit (Verus) or klib.KaniUnit (Kani)."""

PROPERTIES = {
    'C01': {
        'units': ['mvcc', 'mvcc_kani'],
        'level': 'proof',
        'technique': 'Verus contracts on extracted visibility predicates + snapshot-stability lemmas (unbounded); Kani loop-free harness (complete) and per-length chain harnesses (bounded, labelled)',
        'level_text': 'Kernel-level proof: EpochId/VersionInfo visibility functions equal the property\'s own predicate for all inputs; add_version/gc meet whole-view contracts; lemmas derive repeatable-read / no-dirty-read / read-your-writes from those contracts. Chain search functions are checked by bounded Kani harnesses (every chain length 0..=3 quick, 0..=5 thorough), reported separately and not counted as proved.',
        'level_note': 'Assumption A1 (stamping discipline of callers) is NOT checked and, from reading session.rs, does not hold today; sessions/stores/operators are outside both verifiers. Trusted: derived PartialEq structural, VecDeque::is_empty spec, Verus/Z3, Kani/CBMC.',
        'explanation': 'Contracts on the MVCC visibility kernel of crates/grafeo-common/src/mvcc.rs (real functions extracted/injected on every run); the surrounding sessions and stores are named as unverified.',
    },
    'C02': {
        'units': ['tm', 'mvcc_kani'],
        'level': 'proof',
        'technique': 'Verus contracts on extracted TransactionManager::{commit,abort} (state machine + frame over whole maps); Kani bounded harness for VersionChain::remove_versions_by',
        'level_text': 'Proof that commit/abort are all-or-nothing on the manager state: Err leaves transactions, commit epochs and the epoch counter unchanged; Ok flips exactly one transaction; abort never commits. Rollback of one version chain (remove_versions_by) removes all and only the transaction\'s versions: bounded Kani harnesses per chain length, not counted as proved.',
        'level_note': 'LpgStore::discard_uncommitted_versions, label/property/adjacency side tables and RdfStore commit/rollback are RwLock<FxHashMap> code outside both verifiers (reading them: rollback does not undo labels/properties/adjacency/delete marks). Locks dropped by rule E3: sequential contract only.',
        'explanation': 'State-machine contract of the transaction manager and whole-view contract of per-chain rollback.',
    },
    'C03': {
        'units': ['tm'],
        'level': 'proof',
        'technique': 'Verus function contract + loop invariants on the mechanically extracted TransactionManager::commit (write-write validation), postconditions taken from the property statement',
        'level_text': 'Unbounded proof, over every transaction table, write set and epoch assignment, that commit refuses iff a transaction that committed after we began wrote one of our entities (no lost update; never refused for a writer that committed before we began), and that refusal changes nothing.',
        'level_note': 'Locks dropped (rule E3): one critical section executed atomically, interleavings not covered. FxHashMap == std HashMap assumed. Trusted: HashMap::get_mut / HashSet::clone specs, derived Eq/Hash lawful. gc() is not under contract (adapter chains): "clean-up never changes accepted commits" is undecided. No operator calls record_write today (outside reach).',
        'explanation': 'commit() of crates/grafeo-engine/src/transaction/manager.rs extracted on every run; four validation loops carry invariants that imply the property-level postconditions.',
    },
    'C04': {
        'units': ['tm'],
        'level': 'proof',
        'technique': 'Verus function contract + loop invariants on the extracted commit (read-set / SSI validation)',
        'level_text': 'Unbounded proof that a Serializable transaction is refused with SerializationFailure iff an overlapping committed transaction wrote something it read; read-only-nonoverlapping and non-Serializable transactions are never refused with it. The history-level serial-order theorem is not proved (contract level only).',
        'level_note': 'Same trusted base as C03. Backward validation at commit is what is proved; equivalence to a serial order over whole histories is not derived. Reads are not recorded by callers today (outside reach).',
        'explanation': 'SSI clauses of the same commit() contract.',
    },
    'C11': {
        'units': ['filter_kani'],
        'level': 'proof',
        'technique': 'Kani/CBMC loop-free harnesses on the real eval_binary_op / eval_unary_op, operator and operand variants fixed, payloads over all bit patterns (complete)',
        'level_text': 'Bit-precise proof of the three-valued kernel: And/Or/Xor are defined exactly on booleans, NOT maps true<->false and everything else to unknown, so for every value exactly one of p / NOT p / unknown holds; IsNull/IsNotNull are total and complementary; <,>= and >,<= are complementary whenever comparable.',
        'level_note': 'Only the predicate kernel: LIMIT/SKIP/DISTINCT/UNION/COUNT identities live in operators over dyn Operator + DataChunk + hash sets, outside both verifiers. Receiver is never read (rule M1). Regex arm stubbed out (Kani ICE).',
        'explanation': 'Three-valued logic kernel of crates/grafeo-core/src/execution/operators/filter.rs checked on the real functions for all payloads.',
    },
    'C12': {
        'units': ['filter_kani'],
        'level': 'proof',
        'technique': 'Kani/CBMC loop-free harnesses: CBMC overflow / division-by-zero / shift checks on the real arithmetic of expression evaluation, all i64/f64 payloads (complete)',
        'level_text': 'Proof that integer and float arithmetic in expression evaluation (+ - * / % unary minus, comparisons) returns a value or NULL and never panics, for every pair of operands.',
        'level_note': 'Arithmetic kernel only: lexers, parsers, translators, binder and planner are not under contract (str byte reasoning unsupported in Verus; Kani could only give tiny bounded checks). CBMC NaN-generation checks are ignored (not a Rust panic).',
        'explanation': 'Execution-time arithmetic of filter.rs: every operator x operand-variant pair is one loop-free harness.',
    },
    'C15': {
        'units': ['rle', 'bitpack', 'delta', 'bitvec'],
        'level': 'proof',
        'technique': 'Verus function contracts + loop invariants on mechanically extracted codec functions (unbounded); Kani loop-free harness for zig-zag',
        'level_text': 'Deductive proof, for all inputs and lengths, that each contracted codec function meets a sequence-level specification from which the round trip and random-access agreement follow as lemmas over the contracts; bounded stand-ins are listed separately and not counted.',
        'level_note': 'Trusted: Verus/Z3, the extraction rules listed in the evidence (diff included), usize = 64 bit. Not covered: dictionary, codec selector, compressed columns, succinct structures.',
        'explanation': 'Codec kernels of crates/grafeo-core/src/storage extracted from the working tree and verified against sequence-level specifications '
                       '(decode(encode(v)) == v, random access == full decoding) for every length and every value.',
    },
    'C16': {
        'units': ['value_laws'],
        'level': 'proof',
        'technique': 'Kani/CBMC loop-free harnesses over all bit patterns of the real eq/cmp/hash impls (complete, not bounded)',
        'level_text': 'Bit-precise proof over every f64/i64/bool payload that the wrappers satisfy equivalence / total-order / eq-hash agreement laws on the heap-free variants; counterexamples are replayed natively on the real crate.',
        'level_note': 'Trusted: Kani/CBMC; a recording Hasher stands for every Hasher. Not covered: String/Bytes/List/Map/Vector variants, serialisation round trips.',
        'explanation': 'Loop-free Kani harnesses over every bit pattern of the scalar payloads: equivalence, total order, eq/cmp/hash agreement '
                       'for OrderedFloat64, OrderableValue and HashableValue on the heap-free variants, and Timestamp.',
    },
}

NOT_APPLICABLE = {
    'C01': 'pending', 'C02': 'pending', 'C03': 'pending', 'C04': 'pending',
    'C05': 'Persistence is GrafeoDB::{with_config,close} + WalManager + WalRecovery + bincode over File/BufReader: Verus has no file model, Kani cannot execute syscalls, and the store side is RwLock<FxHashMap> code outside both verifiers; no function contract in reach expresses "reopens to the same state".',
    'C06': 'A crash point is a file-system state (bytes present after the last fsync, temp files); no pre/postcondition of read_record(&mut BufReader<File>) or log() can range over those states with the installed verifiers.',
    'C07': 'Export/import is bincode (external serializer) + whole-store enumeration over RwLock<FxHashMap>; neither verifier can take it (hash maps intractable in Kani, locks/bincode unsupported in Verus).',
    'C08': 'Needs a reference semantics for whole queries through translator, binder, planner and a tree of Box<dyn Operator>; contracts on single functions cannot express "rows equal the bindings of the pattern".',
    'C09': 'Semantic equivalence of LogicalOperator trees under rewriting needs a denotational semantics of the whole algebra; no function-level contract within reach decides it.',
    'C10': 'pending', 'C11': 'pending', 'C12': 'pending', 'C13': 'pending', 'C14': 'pending',
    'C17': 'The one integer kernel (generate_morsels) is step_by().enumerate() code: unspecifiable in Verus, and Kani did not finish in 5 min even at 3 rows; the rest is schedulers, heaps, f64 accumulators and spill files.',
    'C18': 'Distances are f64 reductions with SIMD intrinsics, HNSW is RwLock + HashMap + RNG, and the feature is in no default build; outside both verifiers.',
    'C19': 'Optimality specifications over HashMap-based graph views with f64 weights; no contract within reach expresses them.',
    'C20': 'pending',
}
