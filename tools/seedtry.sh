#!/bin/sh
# seedtry.sh <patch.diff> <property> [vc options]: apply a seeded patch to a SCRATCH COPY of /repo's sources (never to /repo), run the check, delete the copy
set -e
PATCH="$1"; PROP="$2"; shift 2
D=$(mktemp -d /var/tmp/grafeo-verif-seedtry-XXXXXX)
cp /repo/Cargo.toml /repo/Cargo.lock "$D"/
cp -r /repo/crates "$D"/crates
(cd "$D" && patch -p1 -s < "$PATCH")
HERE=$(dirname "$(dirname "$(readlink -f "$0")")")
REPO="$D" VERIF_EVIDENCE_DIR="$HERE/work/seed-evidence" VERIF_REPLAY_DIR="$HERE/work/seed-replays" "$HERE/vc" check "$PROP" "$@" || true
rm -rf "$D"
