#!/usr/bin/env python3
"""seedrun: apply a seeded change to /repo, run the property's check (evidence redirected), undo the change.
usage: tools/seedrun.py seeded/<dir> [--units u1,u2] [--harness h1,..]"""
import json
import os
import subprocess
import sys
VERIF = os.path.dirname(os.path.dirname(os.path.abspath(__file__)))
d = sys.argv[1]
meta = json.load(open(os.path.join(d, 'meta.json')))
patch = os.path.abspath(os.path.join(d, 'patch.diff'))
assert subprocess.run(['git', '-C', '/repo', 'status', '--porcelain', '--untracked-files=no'], capture_output=True, text=True).stdout.strip() == '', '/repo not clean'
subprocess.run(['git', '-C', '/repo', 'apply', patch], check=True)
try:
    env = dict(os.environ, VERIF_EVIDENCE_DIR=os.path.join(VERIF, 'work', 'seed-evidence'), VERIF_REPLAY_DIR=os.path.join(VERIF, 'work', 'seed-replays'))
    cmd = [os.path.join(VERIF, 'vc'), 'check', meta['property']] + sys.argv[2:]
    r = subprocess.run(cmd, cwd=VERIF, env=env, capture_output=True, text=True)
    print(r.stdout[-3000:])
    print('exit', r.returncode)
finally:
    subprocess.run(['git', '-C', '/repo', 'checkout', '--', '.'], check=True)
