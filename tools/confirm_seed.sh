#!/bin/sh
# confirm_seed.sh <worktree> <outdir> <demo crate> <crates to test...>: confirm an agent's seed in ITS scratch worktree (never /repo):
#  (1) patch applied: the listed crates' existing tests pass and the demo FAILS; (2) patch reverted: the demo PASSES.
WT="$1"; OUT="$2"; DEMO="$3"; shift 3
export CARGO_TARGET_DIR="${WT}_target" CARGO_NET_OFFLINE=true
cd "$WT" || exit 2
git checkout -q -- . ; git clean -fdq crates
git apply "$OUT/patch.diff" || { echo "PATCH DOES NOT APPLY"; exit 2; }
echo "### existing tests with the patch"
for c in "$@"; do cargo test -p "$c" --offline -j 8 2>&1 | grep -E "^test result|FAILED|failed|error(\[|:)" | sort | uniq -c; done
mkdir -p "crates/$DEMO/tests"; cp "$OUT/seed_demo.rs" "crates/$DEMO/tests/seed_demo.rs"
echo "### demo with the patch (must fail)"
cargo test -p "$DEMO" --offline -j 8 --test seed_demo 2>&1 | grep -E "^test |^test result"
git apply -R "$OUT/patch.diff"
echo "### demo without the patch (must pass)"
cargo test -p "$DEMO" --offline -j 8 --test seed_demo 2>&1 | grep -E "^test |^test result"
rm -f "crates/$DEMO/tests/seed_demo.rs"
