#!/usr/bin/env python3
"""vc: driver.   ./vc check <Cxx> [--tier quick|thorough]   |   ./vc replay <file>   |   ./vc list

Exit 0: every obligation of the property's units was discharged on /repo's current working tree (known findings are
        printed as KNOWN-FINDING lines and do not count).
Exit 1: a named obligation is refuted -> `VIOLATION property=<id> replay=<path>[ no-failing-input-found]`.
Exit 2: UNDECIDED (lost anchor, unsupported construct, rlimit/timeout, tool error) - never an alarm.
"""
import argparse
import hashlib
import importlib
import json
import os
import re
import sys
import time
import traceback

HERE = os.path.dirname(os.path.abspath(__file__))
VERIF = os.path.dirname(HERE)
sys.path.insert(0, HERE)
sys.path.insert(0, os.path.join(VERIF, 'units'))

import klib   # noqa: E402
import vlib   # noqa: E402
from registry import PROPERTIES   # noqa: E402
from rsx import LostAnchor   # noqa: E402

REPO = os.environ.get('REPO', '/repo')
WORK = os.environ.get('VERIF_WORK', os.path.join(VERIF, 'work'))


def load_findings():
    p = os.path.join(VERIF, 'known_findings.json')
    if not os.path.exists(p):
        return []
    return json.load(open(p)).get('findings', [])


def finding_for(prop, failure, findings):
    """A finding suppresses exactly one obligation (+ optional witness class), for one property, while status == open."""
    for f in findings:
        if f.get('status') != 'open' or f['property'] != prop:
            continue
        if f['obligation'] != failure['obligation'] and not (f.get('obligation_regex') and re.fullmatch(f['obligation_regex'], failure['obligation'])):
            continue
        site = f.get('site')
        if site and site not in (failure.get('source_line') or '') and site not in (failure.get('message') or ''):
            continue
        return f
    return None


def slug(s):
    return re.sub(r'[^A-Za-z0-9_.-]+', '_', s)[:120]


def run_units(prop, tier, jobs, findings=(), only_units=None, only_harness=None):
    spec = PROPERTIES[prop]
    results = []
    seeds = (1, 2, 3) if tier == 'thorough' else ()
    for modname in spec['units']:
        if only_units and modname not in only_units:
            continue
        t0 = time.time()
        try:
            mod = importlib.import_module(modname)
            unit = mod.build(REPO)
            if isinstance(unit, klib.KaniUnit):
                r = klib.run_kani_unit(unit, REPO, tier=tier, jobs=jobs, prop=prop, only=only_harness,
                                       known=lambda f: any(finding_for(p_, f, findings) for p_ in f.get('props', [prop])))
            else:
                r = vlib.run_unit(unit, os.path.join(WORK, prop), tier=tier, seeds=seeds)
            r['_unit'] = unit
        except LostAnchor as e:
            r = {'unit': modname, 'engine': '?', 'status': 'undecided', 'failures': [], 'undecided': ['lost anchor: %s' % e], 'wall_s': time.time() - t0, '_unit': None}
        except Exception as e:   # tool/driver error: never an alarm
            r = {'unit': modname, 'engine': '?', 'status': 'undecided', 'failures': [], 'undecided': ['driver error: %s\n%s' % (e, traceback.format_exc()[-1500:])],
                 'wall_s': time.time() - t0, '_unit': None}
        results.append(r)
    return results


def obligation_props(unit, f, prop_default):
    """Which properties a failed obligation is evidence against."""
    if f.get('props'):
        return f['props']
    if unit is not None and not isinstance(unit, klib.KaniUnit):
        # clause-level tags: Piece.contract entries (kind, name, expr, props) ; lemma tags
        for p in unit.pieces.values():
            m = re.search(r'::(?:inv|termination)#L(\d+)', f['obligation'])
            if m and p.full_label() in f['obligation'] and p.loop_ops.get(int(m.group(1)), {}).get('props'):
                return p.loop_ops[int(m.group(1))]['props']
            for kind, name, expr, props in p.contract:
                if props and f['obligation'].endswith('#' + name) and p.full_label() in f['obligation']:
                    return props
            if p.props_default and f.get('function') == p.label:
                return p.props_default
    return unit.props if unit is not None else [prop_default]


def write_replay(prop, r, f):
    d = os.path.join(os.environ.get('VERIF_REPLAY_DIR', os.path.join(VERIF, 'replays')), prop)
    os.makedirs(d, exist_ok=True)
    name = '%s-%s.json' % (r['unit'], slug(f['obligation']))
    path = os.path.join(d, name)
    w = f.get('witness')
    replay = {
        'property': prop, 'unit': r['unit'], 'engine': r['engine'], 'obligation': f['obligation'], 'kind': f['kind'],
        'function': f.get('function'), 'message': f['message'], 'source_line': f.get('source_line'),
        'verifier_output': f.get('rendered'), 'witness': w,
        'failing_input_found': bool(w and (w.get('native_replay') or {}).get('fails_on_real_code')),
        'how_to_replay': './vc replay %s   (re-extracts from /repo, re-runs the unit, reports whether this obligation still fails; for Kani witnesses the playback test is executed natively against the real crate)' % path,
        'repo_head': os.popen('git -C %s rev-parse HEAD 2>/dev/null' % REPO).read().strip(),
    }
    json.dump(replay, open(path, 'w'), indent=1)
    return path, replay['failing_input_found']


def evidence(prop, tier, results, viols, known, undecided, wall):
    spec = PROPERTIES[prop]
    fns, trusted, assumptions, not_covered, samples, bounded, engines, cmds, diffs = [], [], [], [], [], [], set(), [], {}
    known_excluded = []
    obligations = discharged = 0
    solver_ms = 0.0
    for r in results:
        u = r.get('_unit')
        engines.add(r['engine'])
        for run in r.get('runs', []):
            cmds.append(run.get('cmd', ''))
        if u is None:
            continue
        assumptions += list(u.assumptions)
        not_covered += list(u.not_covered)
        for what, why in u.trusted:
            trusted.append('%s: %s — %s' % (u.name, what, why))
        if r['engine'] == 'verus':
            inv = r.get('inventory', {})
            failed = {f['obligation'] for f in r['failures']}
            known_o = {k['obligation'] for k in known if k.get('unit') == r['unit']}
            for o in sorted(failed & known_o):
                known_excluded.append({'obligation': o})
            n = len(inv.get('clauses', [])) + len(inv.get('lemmas', [])) + inv.get('asserts', 0) + len(inv.get('functions', [])) - len(failed & known_o)
            failed = failed - known_o
            obligations += n
            failed_n = len(failed)
            discharged += (n - failed_n) if r['status'] != 'undecided' else 0
            ft = {t['function'].split('::', 1)[-1]: t for t in r.get('fn_times', [])}
            for p in u.pieces.values():
                if p.kind != 'fn':
                    continue
                key = p.label
                t = ft.get(key) or next((v for k, v in ft.items() if k.endswith(key)), None)
                fns.append({'function': p.label, 'source': '%s:%d' % (p.path, p.line), 'engine': 'verus', 'sha256_16_of_verified_text': p.sha(),
                            'rules': sorted({a for a, _ in p.rules}), 'contract_clauses': len(p.contract) + sum(len(l.get('invariants', [])) for l in p.loop_ops.values()),
                            'solver_ms': t['ms'] if t else None})
                d = p.extraction_diff()
                if d:
                    diffs[p.full_label()] = d[:6000]
            solver_ms += sum(run.get('smt_ms') or 0 for run in r.get('runs', []))
            for c in inv.get('clauses', [])[:3]:
                samples.append({'obligation': c, 'engine': 'verus', 'status': 'failed' if c in failed else 'discharged'})
            if r.get('vacuity'):
                samples.append({'vacuity_guard': r['vacuity'], 'unit': u.name})
            if r.get('brittle'):
                assumptions.append('%s: proof brittle under other Z3 seeds: %s' % (u.name, r['brittle']))
        else:
            for lab, rel in u.functions:
                fns.append({'function': lab, 'source': rel, 'engine': 'kani'})
            known_h = {k.get('harness') for k in known if k.get('unit') == r['unit']}
            for h in r.get('harnesses', []):
                if prop not in h['props']:
                    continue
                if h['harness'] in known_h:
                    # a listed known finding: reported on its own line, part of neither `obligations` nor `discharged`
                    known_excluded.append({'harness': h['harness'], 'obligation': h['obligation'], 'cbmc_checks': h['checks_total'], 'failed': h['checks_failed']})
                    continue
                if h['kind'] == 'bounded':
                    bounded.append({'harness': h['harness'], 'obligation': h['obligation'], 'bound': h['bound'], 'result': h['result'],
                                    'cbmc_checks': h['checks_total'], 'time_s': h['time_s']})
                else:
                    obligations += h['checks_total'] or 0
                    if h['result'] == 'SUCCESSFUL':
                        discharged += h['checks_total'] or 0
                    elif h['result'] == 'FAILED':
                        discharged += (h['checks_total'] or 0) - (h['checks_failed'] or 0)
                solver_ms += (h['time_s'] or 0) * 1000
            for h in r.get('harnesses', [])[:3]:
                samples.append({'harness': h['harness'], 'obligation': h['obligation'], 'kind': h['kind'], 'result': h['result'], 'cbmc_checks': h['checks_total']})
            for x in r.get('injection', []):
                diffs.setdefault('%s (kani injection, insert-only)' % u.name, '')
                diffs['%s (kani injection, insert-only)' % u.name] += x + '\n'
    rules_used = sorted({a for f in fns for a in f.get('rules', [])})
    cov = {
        'obligations': obligations, 'discharged': discharged,
        'checker_cmd': ' ; '.join(dict.fromkeys(c for c in cmds if c))[:3000],
        'trusted_base': sorted(set(trusted)) + ['rustc, Verus 0.2026.09.13 + its Z3, Kani 0.68 / CBMC 6.11 themselves', 'usize is 64 bit'],
        'explanation': spec['explanation'],
        'functions_under_contract': fns,
        'extraction_rules_fired': {r: vlib.RULE_DOC.get(r, '') for r in rules_used},
        'extraction_diff': diffs,
        'bounded_stand_ins_not_counted_as_proved': bounded,
        'solver_time_ms': round(solver_ms),
        'engines': sorted(engines),
        'samples': samples[:12] or [{'note': 'no obligation ran'}],
        'not_covered': sorted(set(not_covered)) + spec.get('not_covered', []),
        'known_findings_reported': [k['obligation'] for k in known],
        'known_finding_obligations_excluded_from_counts': known_excluded,
        'violations_reported': [v['obligation'] for v in viols],
        'undecided': undecided[:20],
        'units': [{'unit': r['unit'], 'engine': r['engine'], 'status': r['status'], 'wall_s': round(r.get('wall_s', 0), 1),
                   'verus_verified_items': r.get('verified')} for r in results],
    }
    ev = {'property_id': prop, 'tier': tier, 'seed': int(os.environ.get('VERIF_SEED', '0') or 0), 'level': spec['level'], 'coverage': cov,
          'assumptions': sorted(set(assumptions)) + spec.get('assumptions', []), 'wall_s': round(wall, 2), 'violations': len(viols)}
    evdir = os.environ.get('VERIF_EVIDENCE_DIR', os.path.join(VERIF, 'evidence'))
    os.makedirs(evdir, exist_ok=True)
    json.dump(ev, open(os.path.join(evdir, prop + '.json'), 'w'), indent=1)


def check(prop, tier, jobs, only_units=None, only_harness=None):
    t0 = time.time()
    if prop not in PROPERTIES:
        print('property %s is not claimed (see MANIFEST.json not_applicable)' % prop)
        return 2
    findings = load_findings()
    results = run_units(prop, tier, jobs, findings, only_units, only_harness)
    viols, known, undecided = [], [], []
    for r in results:
        u = r.get('_unit')
        for f in r['failures']:
            if prop not in obligation_props(u, f, prop):
                continue
            kf = finding_for(prop, f, findings)
            rec = dict(f, unit=r['unit'])
            if kf:
                known.append(dict(rec, finding=kf))
            else:
                path, found = write_replay(prop, r, f)
                rec['replay'] = path
                rec['found'] = found
                viols.append(rec)
        for x in r['undecided']:
            undecided.append('%s: %s' % (r['unit'], x))
    if not results:
        undecided.append('no unit ran (unit filter matched nothing)')
    wall = time.time() - t0
    evidence(prop, tier, results, viols, known, undecided, wall)
    for r in results:
        print('unit %-14s %-6s %-10s %6.1fs  %s' % (r['unit'], r['engine'], r['status'], r.get('wall_s', 0),
                                                   ('verified=%s' % r.get('verified')) if r['engine'] == 'verus' else ('harnesses=%d' % len(r.get('harnesses', [])))))
    for k in known:
        print('KNOWN-FINDING: property=%s %s — %s' % (prop, k['obligation'], k['finding']['what']))
    for v in viols:
        print('VIOLATION property=%s replay=%s%s' % (prop, v['replay'], '' if v['found'] else ' no-failing-input-found'))
        print('  obligation %s: %s' % (v['obligation'], v['message'][:300]))
    if viols:
        return 1
    if undecided:
        for x in undecided:
            print('UNDECIDED: ' + x[:1500])
        return 2
    print('OK property=%s tier=%s wall=%.1fs' % (prop, tier, wall))
    return 0


def replay(path):
    rp = json.load(open(path))
    prop = rp['property']
    print('replaying %s: obligation %s (unit %s, %s)' % (path, rp['obligation'], rp['unit'], rp['engine']))
    if rp.get('witness') and rp['witness'].get('values'):
        print('counterexample values:', json.dumps(rp['witness']['values']))
    # re-run only the unit (and, for Kani, only the harness) the obligation belongs to - at the thorough tier so that every harness is visible
    only_units, only_harness = None, None
    for modname in PROPERTIES[prop]['units']:
        try:
            unit = importlib.import_module(modname).build(REPO)
        except Exception:
            continue
        if getattr(unit, 'name', modname) == rp['unit'] or modname == rp['unit']:
            only_units = [modname]
            if isinstance(unit, klib.KaniUnit):
                hs = [h['name'] for h in unit.harnesses if h['obligation'] == rp['obligation']]
                only_harness = hs or None
            break
    results = run_units(prop, 'thorough' if only_harness else 'quick', 8, (), only_units, only_harness)
    for r in results:
        if r['unit'] != rp['unit']:
            continue
        for f in r['failures']:
            if f['obligation'] == rp['obligation']:
                nr = (f.get('witness') or {}).get('native_replay')
                print('REPRODUCED: %s still fails on the current tree: %s' % (f['obligation'], f['message'][:300]))
                if nr:
                    print('native replay on the real code: %s -> %s' % (nr.get('test'), nr.get('verdict')))
                return 1
    print('NOT REPRODUCED on the current tree')
    return 0


def main():
    ap = argparse.ArgumentParser()
    ap.add_argument('cmd', choices=['check', 'replay', 'list'])
    ap.add_argument('arg', nargs='?')
    ap.add_argument('--tier', default=os.environ.get('VERIF_TIER', 'quick'))
    ap.add_argument('--jobs', type=int, default=int(os.environ.get('VERIF_JOBS', '14')))
    ap.add_argument('--units', default=None, help='(selftest / debugging) restrict to these unit modules, comma separated')
    ap.add_argument('--harness', default=None, help='(selftest / debugging) restrict Kani units to these harnesses, comma separated')
    a = ap.parse_args()
    if a.cmd == 'list':
        for p, s in PROPERTIES.items():
            print(p, s['units'])
        return 0
    if a.cmd == 'check':
        return check(a.arg, a.tier, a.jobs, a.units.split(',') if a.units else None, a.harness.split(',') if a.harness else None)
    return replay(a.arg)


if __name__ == '__main__':
    sys.exit(main())
