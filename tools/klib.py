#!/usr/bin/env python3
"""klib: Kani units = the real crate, copied to a scratch workspace, with contracts/harnesses injected in place.

Nothing is deleted or rewritten in the copy: `#[cfg_attr(kani, kani::requires/ensures(..))]` lines are inserted
directly above named fn items and one `#[cfg(kani)] mod verif_<unit>` is appended per file.  With cfg(kani) off the
injected copy is token-identical to /repo.  Every harness has a stated kind:
  complete : loop-free (or loops bounded by operand width), full-domain symbolic inputs  -> counts as proved
  bounded  : container length / unwinding bound stated                                   -> never counted as proved
"""
import json
import os
import re
import shutil
import subprocess
import tempfile
import time

from rsx import LostAnchor, Source

VERIF = os.path.dirname(os.path.dirname(os.path.abspath(__file__)))
CACHE = os.environ.get('VERIF_KANI_TARGET', os.path.join(VERIF, '.cache', 'kani-target'))
SCRATCH_ROOT = os.environ.get('VERIF_SCRATCH', '/var/tmp')


class KaniUnit:
    def __init__(self, name, props, crate, cargo_args=(), copy_crates=('grafeo-common',)):
        self.name = name
        self.props = list(props)
        self.crate = crate
        self.cargo_args = list(cargo_args)
        self.copy_crates = list(copy_crates)
        self.appends = []       # (relpath, text)
        self.attrs = []         # (relpath, ty, fn, trait, attr_text)
        self.harnesses = []     # dicts
        self.trusted = []
        self.assumptions = []
        self.not_covered = []
        self.functions = []     # (label, relpath) real functions exercised under contract
        self.playback_args = []
        self.ignore_checks = []   # regexes of CBMC check descriptions that are not Rust failures (e.g. NaN generation)
        self.module = ''        # fully qualified module path of the injected harness module

    def append(self, relpath, text):
        self.appends.append((relpath, text))

    def attr(self, relpath, ty, fn, text, trait=None):
        self.attrs.append((relpath, ty, fn, trait, text))

    def harness(self, name, obligation, kind='complete', bound=None, props=None, tier='quick', timeout=900, unwind=None, note='', stubs=False):
        self.harnesses.append(dict(name=name, obligation=obligation, kind=kind, bound=bound, props=props or self.props, tier=tier,
                                   timeout=timeout, note=note))

    def trust(self, what, reason):
        self.trusted.append((what, reason))


def make_workspace(repo, crates, dest):
    """Copy the workspace manifest + lock + the named crates (without build output) to dest."""
    os.makedirs(dest, exist_ok=True)
    ws = open(os.path.join(repo, 'Cargo.toml')).read()
    members = ',\n'.join('    "crates/%s"' % c for c in crates)
    ws2, n = re.subn(r'(?s)members\s*=\s*\[.*?\]', 'members = [\n%s\n]' % members, ws, count=1)
    if n != 1:
        raise LostAnchor('workspace members list not found in Cargo.toml')
    # a workspace dependency on a crate we did not copy must not dangle: drop internal path deps not copied
    for c in ('grafeo-common', 'grafeo-core', 'grafeo-adapters', 'grafeo-engine', 'grafeo'):
        if c not in crates:
            ws2 = re.sub(r'(?m)^%s\s*=\s*\{[^\n]*\}\n' % re.escape(c), '', ws2)
    open(os.path.join(dest, 'Cargo.toml'), 'w').write(ws2)
    shutil.copy(os.path.join(repo, 'Cargo.lock'), os.path.join(dest, 'Cargo.lock'))
    for c in crates:
        shutil.copytree(os.path.join(repo, 'crates', c), os.path.join(dest, 'crates', c),
                        ignore=shutil.ignore_patterns('target', '*.profraw'))
    os.makedirs(os.path.join(dest, '.cargo'), exist_ok=True)
    open(os.path.join(dest, '.cargo', 'config.toml'), 'w').write('[net]\noffline = true\n')


def inject(unit, ws):
    """Apply the unit's attribute insertions and module appends to the scratch copy.  Insert-only."""
    report = []
    by_file = {}
    for relpath, ty, fn, trait, text in unit.attrs:
        by_file.setdefault(relpath, []).append((ty, fn, trait, text))
    for relpath, lst in by_file.items():
        path = os.path.join(ws, relpath)
        src = Source(path)
        inserts = []
        for ty, fn, trait, text in lst:
            if ty is None:
                t, line = src.free_fn(fn)
            else:
                t, line, _ = src.method(ty, fn, trait)
            # position: the line of the `fn` keyword inside the item text
            off = src.src.find(t)
            m = re.search(r'(?m)^[ \t]*(?:pub(?:\([a-z: ]+\))?\s+)?(?:const\s+)?(?:unsafe\s+)?fn\s+' + re.escape(fn) + r'\b', t)
            pos = off + m.start()
            indent = re.match(r'[ \t]*', t[m.start():]).group(0)
            inserts.append((pos, ''.join(indent + l + '\n' for l in text.strip().split('\n'))))
            report.append('%s: contract attributes above %s%s' % (relpath, (ty + '::') if ty else '', fn))
        s = src.src
        for pos, t in sorted(inserts, reverse=True):
            s = s[:pos] + t + s[pos:]
        open(path, 'w').write(s)
    for relpath, text in unit.appends:
        # harness items are made pub(crate) so that a playback test can name them by absolute path (cfg(kani) text only)
        text = re.sub(r'(?m)^(\s*)mod (\w+) \{', r'\1pub(crate) mod \2 {', text)
        text = re.sub(r'(macro_rules! \w+ \{ \(\$m:ident[^\n]*=> \{ )mod \$m \{', r'\1pub(crate) mod $m {', text)
        text = re.sub(r'(#\[kani::proof\](?:\s*#\[[^\]]*\])*\s*)fn ', r'\1pub(crate) fn ', text)
        path = os.path.join(ws, relpath)
        with open(path, 'a') as f:
            f.write('\n' + text + '\n')
        report.append('%s: appended #[cfg(kani)] module (%d lines)' % (relpath, text.count('\n') + 1))
    return report


RES_RE = re.compile(r'VERIFICATION:- (SUCCESSFUL|FAILED)')


def parse_block(out):
    """Parse the result block of ONE harness."""
    r = {'result': None, 'checks_total': None, 'checks_failed': None, 'time_s': None, 'failed_checks': [], 'cover_sat': None, 'cover_total': None}
    m = RES_RE.search(out)
    if m:
        r['result'] = m.group(1)
    m = re.search(r'\*\* (\d+) of (\d+) failed', out)
    if m:
        r['checks_failed'], r['checks_total'] = int(m.group(1)), int(m.group(2))
    m = re.search(r'\*\* (\d+) of (\d+) cover properties satisfied', out)
    if m:
        r['cover_sat'], r['cover_total'] = int(m.group(1)), int(m.group(2))
    m = re.search(r'Verification Time: ([\d\.]+)s', out)
    if m:
        r['time_s'] = float(m.group(1))
    for m in re.finditer(r'Failed Checks: (.*)\n\s*File: "([^"]*)", line (\d+), in (\S+)', out):
        r['failed_checks'].append({'description': m.group(1).strip(), 'file': m.group(2), 'line': int(m.group(3)), 'in': m.group(4)})
    if not r['failed_checks']:
        for m in re.finditer(r'Failed Checks: (.*)', out):
            r['failed_checks'].append({'description': m.group(1).strip()})
    r['unwind_failure'] = any('unwinding assertion' in f['description'] for f in r['failed_checks'])
    r['timed_out'] = bool(re.search(r'CBMC timed out|GLOBAL TIMEOUT', out)) and r['result'] != 'SUCCESSFUL'
    if r['timed_out'] or ('CBMC failed' in out and r['result'] != 'SUCCESSFUL'):
        r['result'] = None          # no verdict: a solver timeout / crash is never a refutation nor a proof
    return r


def split_blocks(out):
    """Kani -j output: `Thread N: Checking harness X...` then `Thread N: ` + result block.  -> {harness: block}"""
    cur = {}
    blocks = {}
    active = None
    for line in out.split('\n'):
        m = re.match(r'(?:Thread (\d+): )?Checking harness (\S+?)\.\.\.', line)
        if m:
            t = m.group(1) or '0'
            cur[t] = m.group(2)
            blocks.setdefault(m.group(2), '')
            active = None
            continue
        m = re.match(r'Thread (\d+): ?(.*)$', line)
        if m and m.group(1) in cur:
            active = cur[m.group(1)]
            blocks[active] += m.group(2) + '\n'
            continue
        if re.match(r'(Manual Harness Summary|Complete - |Verification failed for)', line):
            active = None
            continue
        if active is None and len(cur) == 1:
            active = list(cur.values())[0]
        if active is not None:
            blocks[active] += line + '\n'
    return blocks


def kani_cmd(unit, names, jobs=1, extra=(), harness_timeout=None):
    cmd = ['cargo', 'kani', '-p', unit.crate] + unit.cargo_args + ['-Z', 'function-contracts', '-Z', 'stubbing', '--exact', '--output-format', 'terse']
    if harness_timeout:
        cmd += ['-Z', 'unstable-options', '--harness-timeout', '%ds' % harness_timeout]
    if jobs > 1:
        cmd += ['-j', str(jobs)]
    for n in names:
        cmd += ['--harness', unit.module + '::' + n]
    return cmd + list(extra)


def kani_env():
    e = dict(os.environ)
    e['CARGO_NET_OFFLINE'] = 'true'
    e['CARGO_TARGET_DIR'] = CACHE
    return e


def run_harnesses(ws, unit, hs, jobs=8, extra=(), timeout=None):
    """One cargo-kani invocation (the crate is compiled once), harnesses verified by `-j jobs` Kani threads.
    A harness whose result block cannot be found in the output is re-run alone (sequential fallback)."""
    ht = max(h.get('timeout', 300) for h in hs)
    t0 = time.time()
    cmd = kani_cmd(unit, [h['name'] for h in hs], jobs=min(jobs, len(hs)), extra=extra, harness_timeout=ht)
    total_to = 1200 + (ht + 30) * (1 + len(hs) // max(1, min(jobs, len(hs))))
    try:
        p = subprocess.run(cmd, cwd=ws, capture_output=True, text=True, timeout=total_to, env=kani_env())
        full = p.stdout + '\n' + p.stderr
    except subprocess.TimeoutExpired as ex:
        so = ex.stdout or ''
        full = (so.decode('utf8', 'replace') if isinstance(so, bytes) else so) + '\nGLOBAL TIMEOUT'
    blocks = split_blocks(full)
    res = {}
    missing = []
    for h in hs:
        fq = unit.module + '::' + h['name']
        b = blocks.get(fq)
        if b is None or (RES_RE.search(b) is None and 'CBMC' not in b):
            missing.append(h)
            continue
        r = parse_block(b)
        r['output'] = b[-8000:]
        res[h['name']] = r
    if missing and len(hs) > 1 and 'error: could not compile' not in full and 'internal compiler error' not in full:
        for h in missing:
            r1, out1, _, _, _ = run_harnesses(ws, unit, [h], jobs=1, extra=extra)
            res[h['name']] = r1[h['name']]
    else:
        for h in missing:
            res[h['name']] = {'result': None, 'failed_checks': [], 'checks_total': None, 'checks_failed': None, 'time_s': None,
                              'cover_sat': None, 'cover_total': None, 'unwind_failure': False, 'timed_out': False, 'output': full[-3000:]}
    return res, full, ' '.join(cmd)[:1500], time.time() - t0, 0


def run_kani_unit(unit, repo, tier='quick', jobs=8, keep_ws=False, only=None, prop=None, known=None):
    t0 = time.time()
    out = {'unit': unit.name, 'engine': 'kani', 'props': unit.props, 'status': 'ok', 'failures': [], 'undecided': [], 'harnesses': [], 'runs': []}
    ws = tempfile.mkdtemp(prefix='grafeo-verif-kani-', dir=SCRATCH_ROOT)
    try:
        make_workspace(repo, unit.copy_crates, ws)
        out['injection'] = inject(unit, ws)
        hs = [h for h in unit.harnesses if (tier == 'thorough' or h['tier'] == 'quick') and (only is None or h['name'] in only)
              and (prop is None or prop in h['props'])]
        results, full, cmd, wall, rc = run_harnesses(ws, unit, hs, jobs=jobs)
        out['runs'].append({'kind': 'kani', 'cmd': cmd[:600] + (' ...' if len(cmd) > 600 else ''), 'wall_s': wall, 'harnesses': len(hs)})
        if all(r['result'] is None for r in results.values()):
            out['status'] = 'undecided'
            out['undecided'].append('kani produced no verdict (build failure / tool error):\n' + full[-4000:])
            return out
        for h in hs:
            r = results[h['name']]
            rec = {'harness': h['name'], 'obligation': h['obligation'], 'kind': h['kind'], 'bound': h['bound'], 'props': h['props'],
                   'result': r['result'], 'checks_total': r['checks_total'], 'checks_failed': r['checks_failed'], 'time_s': r['time_s'],
                   'cover': (r['cover_sat'], r['cover_total']), 'note': h.get('note', '')}
            out['harnesses'].append(rec)
            if r['result'] == 'SUCCESSFUL':
                # Kani splits a compound cover condition into several checks, some unsatisfiable by construction:
                # the guard is that the harness end is reachable, i.e. at least one cover is satisfied
                if r['cover_total'] and not r['cover_sat']:
                    out['undecided'].append('%s: vacuity guard: cover unsatisfied (%s of %s)' % (h['name'], r['cover_sat'], r['cover_total']))
                if not r['checks_total']:
                    out['undecided'].append('%s: zero checks generated' % h['name'])
            elif r['result'] == 'FAILED':
                real = [f for f in r['failed_checks'] if 'unwinding assertion' not in f['description']
                        and not any(re.search(ig, f['description']) for ig in unit.ignore_checks)]
                if not real and not r.get('unwind_failure') and r['failed_checks']:
                    rec['result'] = 'SUCCESSFUL'
                    rec['note'] = (rec.get('note') or '') + ' (only ignored CBMC checks failed: %s)' % unit.ignore_checks
                    continue
                if not real and r.get('unwind_failure'):
                    out['undecided'].append('%s: unwinding bound too small (unwinding assertion failed)' % h['name'])
                elif not real:
                    rec['result'] = 'NO-VERDICT'
                    out['undecided'].append('%s: FAILED without a failed check (tool error)\n%s' % (h['name'], r['output'][-800:]))
                else:
                    out['failures'].append({'obligation': h['obligation'], 'kind': 'kani-' + h['kind'], 'function': h['obligation'].rsplit('::', 1)[0],
                                            'harness': h['name'], 'props': h['props'],
                                            'message': '; '.join('%s (%s:%s)' % (f['description'], f.get('file', '?'), f.get('line', '?')) for f in real[:6]),
                                            'rendered': r['output'][-6000:], 'witness': None})
            else:
                rec['result'] = 'TIMEOUT' if r.get('timed_out') else 'NO-VERDICT'
                out['undecided'].append('%s: %s\n%s' % (h['name'], rec['result'], r['output'][-1200:]))
        # counterexamples for the failures (one extra Kani run per failing harness, in parallel)
        if out['failures']:
            from concurrent.futures import ThreadPoolExecutor
            # counterexamples are extracted (and replayed natively) only for failures that are not listed known findings
            todo = [f for f in out['failures'] if not (known and known(f))]
            with ThreadPoolExecutor(max_workers=min(jobs, 4)) as ex:
                ws_ = list(ex.map(lambda f: witness(ws, unit, next(h for h in hs if h['name'] == f['harness'])), todo))
            for f, w in zip(todo, ws_):
                f['witness'] = w
            native_replay(ws, unit, todo)
        if out['failures']:
            out['status'] = 'violation'
        elif out['undecided']:
            out['status'] = 'undecided'
        return out
    finally:
        out['wall_s'] = time.time() - t0
        if not keep_ws:
            shutil.rmtree(ws, ignore_errors=True)
        else:
            out['ws'] = ws


def witness(ws, unit, h):
    """Ask Kani for the counterexample as concrete values (concrete playback test text)."""
    res, full, cmd, wall, rc = run_harnesses(ws, unit, [h], jobs=1, extra=['-Z', 'concrete-playback', '--concrete-playback=print'])
    tests = re.findall(r'(?s)```\n(.*?#\[test\].*?)```', full)
    # Kani prints one playback test per failed / covered property: prefer a failed assertion over a cover
    tests.sort(key=lambda t: 0 if 'Check for `assertion`' in t else (2 if 'Check for `cover`' in t else 1))
    test = tests[0] if tests else None
    w = {'playback_test': test, 'cmd': cmd}
    if test:
        vals = re.findall(r'//\s*(.+)\n\s*vec!\[([^\]]*)\]', test)
        w['values'] = [{'value': a.strip(), 'bytes': b.strip()} for a, b in vals][:40]
    return w


def native_replay(ws, unit, failures, timeout=1500):
    """Execute Kani's counterexamples natively against the real code (cargo kani playback)."""
    tests = [(f, f['witness']['playback_test']) for f in failures if f.get('witness') and f['witness'].get('playback_test')]
    if not tests:
        return
    relpath = unit.appends[-1][0]
    path = os.path.join(ws, relpath)
    src = open(path).read()
    k = src.rstrip().rfind('}')
    def qualify(f, t):
        # name the harness by absolute path: the test lives in the last appended module, the harness possibly elsewhere
        hname = f['harness']
        short = hname.split('::')[-1]
        return re.sub(r'(kani::concrete_playback_run\(concrete_vals,\s*)%s\)' % re.escape(short), r'\1crate::%s::%s)' % (unit.module, hname), t)
    body = '\n'.join('    ' + l for f, t in tests for l in qualify(f, t).split('\n'))
    open(path, 'w').write(src[:k] + body + '\n}\n')
    cmd = ['cargo', 'kani', 'playback', '-Z', 'concrete-playback', '-p', unit.crate] + list(unit.playback_args) + ['--', 'kani_concrete_playback_']
    try:
        p = subprocess.run(cmd, cwd=ws, capture_output=True, text=True, timeout=timeout, env=kani_env())
        out = p.stdout + '\n' + p.stderr
    except subprocess.TimeoutExpired:
        out = 'TIMEOUT'
    for f, t in tests:
        m = re.search(r'fn (kani_concrete_playback_\w+)', t)
        name = m.group(1) if m else None
        verdict = None
        if name:
            mm = re.search(r'test \S*' + re.escape(name) + r' \.\.\. (\w+)', out)
            verdict = mm.group(1) if mm else None
        f['witness']['native_replay'] = {'cmd': ' '.join(cmd), 'test': name, 'verdict': verdict,
                                         'fails_on_real_code': verdict == 'FAILED'}
        pm = re.search(r"(?s)---- \S*" + re.escape(name or '@') + r" stdout ----\n(.*?)\n\n", out)
        if pm:
            f['witness']['native_replay']['panic'] = pm.group(1)[:800]
    if not any(f['witness'].get('native_replay', {}).get('verdict') for f, _ in tests):
        for f, _ in tests:
            f['witness']['native_replay']['log_tail'] = out[-1500:]
