#!/bin/sh
# Offline setup after a fresh restore: check the tools; nothing is fetched or built ahead of time
# (Verus units are single files; the Kani target cache under .cache/ is rebuilt by the first check that needs it).
set -e
cd "$(dirname "$0")"
command -v verus >/dev/null || { echo "verus not on PATH"; exit 1; }
command -v cargo-kani >/dev/null || { echo "cargo-kani not on PATH"; exit 1; }
python3 -c "import sys; sys.path.insert(0,'tools'); import rsx, vlib, klib, registry" 
mkdir -p evidence work .cache replays
echo "setup ok"
